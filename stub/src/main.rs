//! C26: for any valid schema over built-in scalars, `generate_rust_stub` produces Rust that compiles, tests included.
//!
//! Generator: valid-by-construction schemas (tfv::schema_ast) whose type / property / edge / entry point /
//! parameter names are then renamed through a generated injective map into pools of hostile names (Rust strict
//! and reserved keywords, names that differ only in case or underscores, names of generated items and of
//! prelude / trustfall items). Oracle: the stub is generated under catch_unwind; all stubs of a batch become
//! sibling modules of one crate depending on /repo/trustfall by path, which is compiled once with
//! `cargo check --tests` (quick) or `cargo test --no-run` (thorough); rustc's JSON diagnostics attribute errors to
//! the case directories.

use std::{
    collections::{BTreeMap, BTreeSet},
    path::{Path, PathBuf},
    process::Command,
};

use proptest::{
    collection::vec,
    prelude::any,
    strategy::{Strategy, ValueTree},
    test_runner::{Config, RngSeed, TestRunner},
};
use serde_json::{json, Value as Json};
use tfv::{
    checks::Report,
    choice::{fnv64, hex, unhex, Choices},
    engine,
    runner::{env_scale, CheckCtx, Tier, VERIF_ROOT},
    schema_ast::{gen_schema, SchemaDoc, SchemaGenConfig, SCALARS},
};

const TYPE_POOL: &[&str] = &[
    "Foo", "foo", "Foo_", "FOO", "fooBar", "FooBar", "foo_bar", "Foo_Bar", "Self_", "Type", "Type_", "Vertex", "Adapter", "Box", "Option",
    "Vec", "Arc", "Result", "Some", "None", "Ok", "Err", "Send", "Sync", "Iterator", "Schema", "FieldValue", "Entrypoints", "Match", "Crate",
    "Self", "self", "type", "match", "yield", "box", "final", "abstract", "do", "macro", "try", "union", "dyn", "async", "Typename", "X1",
    "x", "A_B_C", "ABc", "aBC",
];
const FIELD_POOL: &[&str] = &[
    "type", "match", "self", "Self", "super", "crate", "fn", "ref", "name", "Name", "name_", "NAME", "loop", "async", "await", "move", "impl",
    "where", "dyn", "in", "try", "union", "static", "yield", "box", "final", "abstract", "do", "macro", "override", "priv", "typeof", "unsized",
    "virtual", "become", "gen", "resolve_property", "contexts", "adapter", "resolve_info", "edge_name", "parameters", "property_name",
    "type_name", "vertex", "value", "fooBar", "foo_bar", "FooBar", "Vertex", "Adapter", "new", "schema", "x", "X", "a1", "as", "use", "mod",
    "pub", "let", "mut", "true", "false", "if", "else", "while", "for", "return", "break", "continue", "const", "enum", "struct", "trait",
    "extern", "unsafe", "macro_rules",
];

fn is_rust_keyword(n: &str) -> bool {
    matches!(
        n,
        "as" | "break" | "const" | "continue" | "crate" | "else" | "enum" | "extern" | "false" | "fn" | "for" | "if" | "impl" | "in" | "let"
            | "loop" | "match" | "mod" | "move" | "mut" | "pub" | "ref" | "return" | "self" | "Self" | "static" | "struct" | "super" | "trait"
            | "true" | "type" | "unsafe" | "use" | "where" | "while" | "async" | "await" | "dyn" | "abstract" | "become" | "box" | "do" | "final"
            | "macro" | "override" | "priv" | "typeof" | "unsized" | "virtual" | "yield" | "try" | "gen" | "union" | "macro_rules"
    )
}

struct Renamer {
    used: BTreeSet<String>,
    map: BTreeMap<String, String>,
}

impl Renamer {
    fn new() -> Self {
        Self { used: BTreeSet::new(), map: BTreeMap::new() }
    }
    /// injective: a plain name keeps its identity with probability ~1/3, otherwise takes the first unused pool entry at or
    /// after a generated index
    fn rename(&mut self, c: &mut Choices<'_>, plain: &str, pool: &[&str]) -> String {
        if let Some(n) = self.map.get(plain) {
            return n.clone();
        }
        let mut chosen = plain.to_string();
        if !c.chance(85) {
            let start = c.below(pool.len());
            for k in 0..pool.len() {
                let cand = pool[(start + k) % pool.len()];
                if !self.used.contains(cand) {
                    chosen = cand.to_string();
                    break;
                }
            }
        }
        self.used.insert(chosen.clone());
        self.map.insert(plain.to_string(), chosen.clone());
        chosen
    }
}

struct Case {
    sdl: String,
    keyword_names: usize,
    lookalike_names: bool,
    parameterised_edges: usize,
    list_properties: usize,
}

fn gen_case(bytes: &[u8]) -> Case {
    let mut c = Choices::new(bytes);
    let cfg = SchemaGenConfig { max_ifaces: 3, max_objects: 4, hostile_names: false, docs: true, max_list_depth: 2 };
    let mut doc: SchemaDoc = gen_schema(&mut c, &cfg);
    let root = doc.root.clone();
    // types (the root query type keeps its name or gets a hostile one too)
    let mut types = Renamer::new();
    let type_names: Vec<String> = doc.types.iter().map(|t| t.name.clone()).collect();
    for n in &type_names {
        types.rename(&mut c, n, TYPE_POOL);
    }
    // fields: properties and edges of the vertex types share one namespace; entry points have their own
    let mut fields = Renamer::new();
    let mut entries = Renamer::new();
    // parameter names are per edge, and an inherited edge must keep them: one renamer per (root?, plain edge name)
    let mut params_of: BTreeMap<(bool, String), Renamer> = BTreeMap::new();
    let mut parameterised_edges = 0;
    let mut list_properties = 0;
    let mut all_names: Vec<String> = vec![];
    for t in doc.types.iter_mut() {
        let is_root = t.name == root;
        t.name = types.map[&t.name].clone();
        all_names.push(t.name.clone());
        for i in t.implements.iter_mut() {
            *i = types.map[i.as_str()].clone();
        }
        for f in t.fields.iter_mut() {
            let params = params_of.entry((is_root, f.name.clone())).or_insert_with(Renamer::new);
            f.name = if is_root { entries.rename(&mut c, &f.name, FIELD_POOL) } else { fields.rename(&mut c, &f.name, FIELD_POOL) };
            all_names.push(f.name.clone());
            if !SCALARS.contains(&f.ty.base.as_str()) {
                f.ty.base = types.map[&f.ty.base].clone();
                if !f.params.is_empty() {
                    parameterised_edges += 1;
                }
            } else if f.ty.nulls.len() > 1 {
                list_properties += 1;
            }
            for p in f.params.iter_mut() {
                p.name = params.rename(&mut c, &p.name, FIELD_POOL);
                all_names.push(p.name.clone());
            }
        }
    }
    doc.root = types.map[&root].clone();
    doc.schema_blocks = vec![doc.root.clone()];
    all_names.sort();
    all_names.dedup();
    let keyword_names = all_names.iter().filter(|n| is_rust_keyword(n)).count();
    let mut folded: BTreeSet<String> = BTreeSet::new();
    let mut lookalike = false;
    for n in &all_names {
        if !folded.insert(n.to_lowercase().replace('_', "")) {
            lookalike = true;
        }
    }
    Case { sdl: doc.render(), keyword_names, lookalike_names: lookalike, parameterised_edges, list_properties }
}

const DIRECTIVES: &str = "directive @filter(op: String!, value: [String!]) repeatable on FIELD | INLINE_FRAGMENT\ndirective @tag(name: String) on FIELD\ndirective @output(name: String) on FIELD\ndirective @optional on FIELD\ndirective @recurse(depth: Int!) on FIELD\ndirective @fold on FIELD\ndirective @transform(op: String!) on FIELD\n";

const GRID_POSITIONS: [&str; 7] = ["object_type", "interface", "property", "edge", "entry_point", "edge_parameter", "entry_point_parameter"];

/// the single-name grid: one small fixed schema with exactly one hostile name at one position
fn grid_schema(position: &str, name: &str) -> String {
    let pick = |pos: &str, plain: &str| if pos == position { name.to_string() } else { plain.to_string() };
    let (obj, iface, prop, edge, entry, eparam, sparam) = (
        pick("object_type", "Thing"),
        pick("interface", "Named"),
        pick("property", "title"),
        pick("edge", "linked"),
        pick("entry_point", "Things"),
        pick("edge_parameter", "limit"),
        pick("entry_point_parameter", "first"),
    );
    format!(
        "schema {{\n  query: RootSchemaQuery\n}}\n{DIRECTIVES}type RootSchemaQuery {{\n  {entry}({sparam}: Int, flag: Boolean! = true): [{obj}!]!\n}}\ninterface {iface} {{\n  {prop}: String\n}}\ntype {obj} implements {iface} {{\n  {prop}: String\n  count: Int!\n  tags: [String!]\n  {edge}({eparam}: Int, labels: [String!]): [{iface}!]\n}}\n"
    )
}

/// the pair grid: two look-alike names (differing only in case, underscores or word boundaries) at the same kind of
/// position of one small fixed schema; the generator must either refuse the schema or produce a stub that compiles
const PAIRS: &[(&str, &str)] = &[
    ("Foo", "Foo_"), ("Foo", "_Foo"), ("_Foo", "Foo_"), ("Foo", "foo"), ("Foo", "FOO"), ("foo", "foo_"), ("foo", "_foo"), ("fooBar", "foo_bar"),
    ("FooBar", "Foo_Bar"), ("fooBar", "FooBar"), ("Type", "Type_"), ("type", "type_"), ("Self", "Self_"), ("self", "self_"), ("X1", "X_1"),
    ("A_B", "AB"), ("a_b", "a__b"), ("Foo1", "Foo_1"), ("foo", "Foo_"), ("HTTPServer", "HttpServer"), ("userID", "userId"),
    ("user_id", "userId"), ("_x", "x_"), ("Foo_", "Foo__"), ("fooBAR", "fooBar"), ("r_type", "type"), ("Vertex", "Vertex_"), ("vertex", "Vertex"),
];
const PAIR_POSITIONS: [&str; 6] = ["object_types", "interfaces", "properties", "edges", "entry_points", "edge_parameters"];

fn pair_schema(position: &str, a: &str, b: &str) -> String {
    let pick = |pos: &str, plain_a: &str, plain_b: &str| {
        if pos == position { (a.to_string(), b.to_string()) } else { (plain_a.to_string(), plain_b.to_string()) }
    };
    let (o1, o2) = pick("object_types", "Thing", "Other");
    let (i1, i2) = pick("interfaces", "Named", "Tagged");
    let (p1, p2) = pick("properties", "title", "label");
    let (e1, e2) = pick("edges", "linked", "related");
    let (s1, s2) = pick("entry_points", "Things", "Others");
    let (q1, q2) = pick("edge_parameters", "limit", "offset");
    format!(
        "schema {{\n  query: RootSchemaQuery\n}}\n{DIRECTIVES}type RootSchemaQuery {{\n  {s1}(first: Int): [{o1}!]!\n  {s2}: [{o2}!]\n}}\n\
         interface {i1} {{\n  {p1}: String\n}}\ninterface {i2} {{\n  {p2}: Int\n  {e2}: [{i1}!]\n}}\n\
         type {o1} implements {i1} {{\n  {p1}: String\n  {p2}: Int!\n  {e1}({q1}: Int, {q2}: [String!]): [{o2}!]\n  {e2}: {i2}\n}}\n\
         type {o2} implements {i2} {{\n  {p2}: Int\n  {p1}: [String!]\n  {e2}: [{i1}!]\n  {e1}: {o1}!\n}}\n"
    )
}

fn grid_cases() -> Vec<(String, Vec<u8>, Case)> {
    let mut out = vec![];
    for (pi, position) in PAIR_POSITIONS.iter().enumerate() {
        for (ni, (a, b)) in PAIRS.iter().enumerate() {
            let sdl = pair_schema(position, a, b);
            let case = Case { sdl, keyword_names: (is_rust_keyword(a) || is_rust_keyword(b)) as usize, lookalike_names: true, parameterised_edges: 1, list_properties: 1 };
            out.push((format!("grid:pair:{position}:{a}+{b}"), vec![0x80 | pi as u8, ni as u8], case));
        }
    }
    for (pi, position) in GRID_POSITIONS.iter().enumerate() {
        let pool: &[&str] = if pi < 2 { TYPE_POOL } else { FIELD_POOL };
        for (ni, name) in pool.iter().enumerate() {
            let sdl = grid_schema(position, name);
            let case = Case { sdl, keyword_names: is_rust_keyword(name) as usize, lookalike_names: false, parameterised_edges: 2, list_properties: 1 };
            out.push((format!("grid:{position}:{name}"), vec![pi as u8, ni as u8], case));
        }
    }
    out
}

fn grid_case_from(bytes: &[u8]) -> Option<Case> {
    let (pi, ni) = (*bytes.first()? as usize, *bytes.get(1)? as usize);
    if pi & 0x80 != 0 {
        let position = PAIR_POSITIONS.get(pi & 0x7f)?;
        let (a, b) = PAIRS.get(ni)?;
        return Some(Case {
            sdl: pair_schema(position, a, b),
            keyword_names: (is_rust_keyword(a) || is_rust_keyword(b)) as usize,
            lookalike_names: true,
            parameterised_edges: 1,
            list_properties: 1,
        });
    }
    let position = GRID_POSITIONS.get(pi)?;
    let pool: &[&str] = if pi < 2 { TYPE_POOL } else { FIELD_POOL };
    let name = pool.get(ni)?;
    Some(Case { sdl: grid_schema(position, name), keyword_names: is_rust_keyword(name) as usize, lookalike_names: false, parameterised_edges: 2, list_properties: 1 })
}

enum Gen {
    Ok,
    Refused(String),
    Error(String),
    Panic(String),
}

fn generate(sdl: &str, dir: &Path) -> Gen {
    let _ = std::fs::remove_dir_all(dir);
    std::fs::create_dir_all(dir).expect("create case dir");
    match engine::catch(|| trustfall_stubgen::generate_rust_stub(sdl, dir)) {
        Ok(Ok(())) => Gen::Ok,
        Ok(Err(e)) => Gen::Error(format!("{e:#}")),
        Err(p) if p.message.contains("cannot generate adapter for a schema containing both") => Gen::Refused(p.message.clone()),
        Err(p) => Gen::Panic(format!("{} at {}", p.message, p.file())),
    }
}

fn write_batch_crate(dir: &Path, cases: &[usize]) {
    let cargo = "[package]\nname = \"c26_batch\"\npublish = false\nversion = \"0.1.0\"\nedition = \"2021\"\n\n[dependencies]\ntrustfall = { path = '/repo/trustfall' }\n\n[workspace]\n";
    std::fs::write(dir.join("Cargo.toml"), cargo).expect("write Cargo.toml");
    let _ = std::fs::copy("/repo/Cargo.lock", dir.join("Cargo.lock"));
    std::fs::create_dir_all(dir.join(".cargo")).expect("mkdir");
    std::fs::write(dir.join(".cargo/config.toml"), "[net]\noffline = true\n").expect("write config");
    std::fs::create_dir_all(dir.join("src")).expect("mkdir");
    let mut lib = String::from("#![allow(warnings)]\n");
    for i in cases {
        lib.push_str(&format!("#[path = \"case_{i}/adapter/mod.rs\"]\nmod case_{i};\n"));
    }
    std::fs::write(dir.join("src/lib.rs"), lib).expect("write lib.rs");
}

/// compiles the batch; returns per-case error messages, or Err when cargo itself could not do its job
fn compile_batch(dir: &Path, thorough: bool) -> Result<BTreeMap<usize, Vec<String>>, String> {
    let mut cmd = Command::new("cargo");
    if thorough {
        cmd.args(["test", "--no-run"]);
    } else {
        cmd.args(["check", "--tests"]);
    }
    let out = cmd
        .args(["--message-format=json", "--target-dir", "/verif/target-stub"])
        .current_dir(dir)
        .env("CARGO_NET_OFFLINE", "true")
        .output()
        .map_err(|e| format!("cannot run cargo: {e}"))?;
    let mut per_case: BTreeMap<usize, Vec<String>> = BTreeMap::new();
    let mut unattributed: Vec<String> = vec![];
    for line in String::from_utf8_lossy(&out.stdout).lines() {
        let Ok(j) = serde_json::from_str::<Json>(line) else { continue };
        if j["reason"] != "compiler-message" {
            continue;
        }
        let m = &j["message"];
        if m["level"] != "error" {
            continue;
        }
        let text = m["message"].as_str().unwrap_or("").to_string();
        if text.starts_with("aborting due to") || text.starts_with("could not compile") {
            continue;
        }
        let in_batch = j["target"]["name"] == "c26_batch";
        let mut case = None;
        for s in m["spans"].as_array().cloned().unwrap_or_default() {
            let f = s["file_name"].as_str().unwrap_or("");
            if let Some(rest) = f.split("case_").nth(1) {
                if let Ok(i) = rest.split('/').next().unwrap_or("").parse::<usize>() {
                    case = Some((i, format!("{}:{}", f.rsplit('/').next().unwrap_or(""), s["line_start"])));
                    if s["is_primary"] == true {
                        break;
                    }
                }
            }
        }
        match case {
            Some((i, at)) if in_batch => {
                let msg = format!("{text} [{at}]");
                let v = per_case.entry(i).or_default();
                if !v.contains(&msg) {
                    v.push(msg);
                }
            }
            _ => unattributed.push(format!("{}: {text}", j["target"]["name"])),
        }
    }
    if !out.status.success() && per_case.is_empty() {
        let stderr = String::from_utf8_lossy(&out.stderr);
        return Err(format!("cargo failed without an error attributable to a case:\n{}\n{}", unattributed.join("\n"), stderr.chars().rev().take(3000).collect::<String>().chars().rev().collect::<String>()));
    }
    if !unattributed.is_empty() && per_case.is_empty() {
        return Err(format!("errors outside the generated cases:\n{}", unattributed.join("\n")));
    }
    Ok(per_case)
}

/// stable signature of a compile failure: error texts with identifiers in backticks kept (they name the construct)
fn compile_sig(errors: &[String], case_index: usize) -> String {
    let first = errors.first().cloned().unwrap_or_default();
    let text = first.split(" [").next().unwrap_or("").replace(&format!("case_{case_index}::"), "");
    format!("c26:stub-does-not-compile|{text}")
}

fn scratch_root() -> PathBuf {
    Path::new(VERIF_ROOT).join("scratch").join("c26")
}

fn main() {
    let args: Vec<String> = std::env::args().collect();
    let mut tier = match std::env::var("VERIF_TIER").ok().as_deref() {
        Some("thorough") => Tier::Thorough,
        _ => Tier::Quick,
    };
    let mut replay: Option<PathBuf> = None;
    let mut i = 1;
    while i < args.len() {
        match args[i].as_str() {
            "quick" => tier = Tier::Quick,
            "thorough" => tier = Tier::Thorough,
            "--replay" => {
                i += 1;
                replay = args.get(i).map(PathBuf::from);
            }
            other => {
                eprintln!("unknown argument {other}");
                std::process::exit(2);
            }
        }
        i += 1;
    }
    let seed = std::env::var("VERIF_SEED").ok().and_then(|s| s.trim().parse::<i128>().ok()).map(|v| v as u64).unwrap_or(20260921);
    let ctx = CheckCtx { property: "C26".into(), tier, seed, replay: replay.clone(), threads: 16, scale: env_scale() };
    engine::install_panic_hook();
    if let Some(path) = replay {
        std::process::exit(replay_case(&path));
    }
    let mut report = Report::new(
        &ctx,
        "choice stream -> valid-by-construction schema over the built-in scalars (0-3 interfaces, 1-4 object types, inherited fields, \
         parameterised edges with defaults, list properties, docs) -> every type / property / edge / entry point / parameter name is kept \
         (1/3) or renamed injectively into a pool of hostile names (all Rust strict and reserved keywords, names differing only in case or \
         underscores, names of generated items, prelude and trustfall items). One evaluation = one schema: generate_rust_stub under \
         catch_unwind, then the stub is compiled (tests included) as a module of a batch crate depending on /repo/trustfall; a documented \
         refusal ('cannot generate adapter for a schema containing both ...') is counted as refused, not as a pass. Non-trivial: the stub \
         was generated and compiled, and the schema has >= 1 keyword or look-alike name and >= 1 parameterised edge; distinct by SDL.",
    );
    report.assume("the compile of the generated code is the oracle: `cargo check --tests` (quick) / `cargo test --no-run` (thorough) with edition 2021, as in the repository's own stubgen tests");
    let (batches, per_batch) = match tier {
        Tier::Quick => (1usize, ctx.cases(96, 96) as usize),
        Tier::Thorough => (ctx.cases(24, 24) as usize, 125usize),
    };
    let thorough = matches!(tier, Tier::Thorough);
    let config = Config { rng_seed: RngSeed::Fixed(seed ^ 0xC26), failure_persistence: None, ..Config::default() };
    let mut runner = TestRunner::new(config);
    let strategy = vec(any::<u8>(), 64usize..=500);
    let root = scratch_root().join(format!("{}-{seed}", tier.name()));
    let _ = std::fs::remove_dir_all(&root);
    // the single-name grid: every pool name at every position, one at a time (fixed work, enumerated completely)
    let grid = grid_cases();
    report.stats.bump("grid_cases", grid.len() as u64);
    let mut ok = run_batch(&mut report, &root.join("grid"), grid, thorough);
    for b in 0..batches {
        if !ok {
            break;
        }
        let items: Vec<(String, Vec<u8>, Case)> = (0..per_batch)
            .map(|_| {
                let bytes = strategy.new_tree(&mut runner).expect("generate").current();
                let case = gen_case(&bytes);
                ("c26".to_string(), bytes, case)
            })
            .collect();
        ok = run_batch(&mut report, &root.join(format!("batch_{b}")), items, thorough);
    }
    let _ = std::fs::remove_dir_all(&root);
    std::process::exit(report.finish());
}

/// generates and compiles one batch; false when the run cannot continue (harness self-check failed)
fn run_batch(report: &mut Report, dir: &Path, items: Vec<(String, Vec<u8>, Case)>, thorough: bool) -> bool {
    std::fs::create_dir_all(dir.join("src")).expect("mkdir");
    let mut generated: Vec<usize> = vec![];
    for (k, (sub, bytes, case)) in items.iter().enumerate() {
        let is_grid = sub.starts_with("grid:");
        report.stats.evaluations += 1;
        match engine::parse_schema(&case.sdl) {
            Ok(Ok(_)) => {}
            _ if is_grid => {
                report.stats.discard("grid: name not accepted by the schema parser at this position");
                continue;
            }
            other => {
                report.harness_bugs.push(format!("generated schema is not valid: {:?}\n{}", other.map(|r| r.err()).map_err(|p| p.message), case.sdl));
                return false;
            }
        }
        if !is_grid {
            if case.keyword_names > 0 {
                report.stats.label("has_keyword_name");
            }
            if case.lookalike_names {
                report.stats.label("has_lookalike_names");
            }
            if case.parameterised_edges > 0 {
                report.stats.label("has_parameterised_edge");
            }
            if case.list_properties > 0 {
                report.stats.label("has_list_property");
            }
        } else {
            report.stats.label("grid_case");
        }
        let tag = if is_grid { format!("|{sub}") } else { String::new() };
        match generate(&case.sdl, &dir.join("src").join(format!("case_{k}"))) {
            Gen::Ok => {
                report.stats.label("stub_generated");
                generated.push(k);
            }
            Gen::Refused(_) => {
                report.stats.label("refused_documented_name_conflict");
                report.stats.discard("refused: documented name conflict");
                let _ = std::fs::remove_dir_all(dir.join("src").join(format!("case_{k}")));
            }
            Gen::Error(e) => {
                let sig = format!("c26:generator-error|{}{tag}", e.lines().next().unwrap_or(""));
                record(report, sub, bytes, case, &sig, &e);
            }
            Gen::Panic(p) => {
                let head: String = p.chars().take(80).collect();
                let sig = format!("c26:generator-panic|{head}{tag}");
                record(report, sub, bytes, case, &sig, &p);
            }
        }
    }
    write_batch_crate(dir, &generated);
    match compile_batch(dir, thorough) {
        Err(e) => {
            eprintln!("{e}");
            report.harness_bugs.push("the batch crate could not be compiled for a reason not attributable to a generated case".into());
            return false;
        }
        Ok(errors) => {
            report.stats.bump("stubs_compiled", generated.len() as u64);
            for k in &generated {
                let (sub, bytes, case) = &items[*k];
                let is_grid = sub.starts_with("grid:");
                match errors.get(k) {
                    None => {
                        report.stats.label("stub_compiles");
                        if (case.keyword_names > 0 || case.lookalike_names) && case.parameterised_edges > 0 && report.stats.nontrivial(case.sdl.as_bytes()) {
                            report.stats.sample(|| json!({"case": sub, "schema": case.sdl, "keyword_names": case.keyword_names, "parameterised_edges": case.parameterised_edges}));
                        }
                    }
                    Some(errs) => {
                        report.stats.label("stub_does_not_compile");
                        let tag = if is_grid { format!("|{sub}") } else { String::new() };
                        let sig = format!("{}{tag}", compile_sig(errs, *k));
                        record(report, sub, bytes, case, &sig, &errs.join("\n"));
                    }
                }
            }
        }
    }
    let _ = std::fs::remove_dir_all(dir);
    true
}

fn record(report: &mut Report, sub: &str, bytes: &[u8], case: &Case, sig: &str, msg: &str) {
    if let Some(kf) = report.known.matching("C26", sig) {
        *report.stats.known_hits.entry(kf.id.clone()).or_insert(0) += 1;
        return;
    }
    eprintln!("failing case: {sig}");
    // one replay file per error class (the text before the grid tag)
    let class_of = |s: &str| s.split("|grid:").next().unwrap_or("").chars().take(120).collect::<String>();
    let class = class_of(sig);
    if report.violations.iter().any(|(s, _, _)| class_of(s) == class) {
        report.stats.bump("further_violations_with_an_already_reported_signature", 1);
        return;
    }
    let subcheck = if sub.starts_with("grid:") { "c26-grid" } else { "c26" };
    let path = tfv::runner::write_replay("C26", subcheck, bytes, sig, msg, json!({"case": sub, "schema": case.sdl}));
    report.violations.push((sig.to_string(), format!("{msg}\nschema:\n{}", case.sdl), path));
}

/// strict single-case replay: regenerate the schema from the saved choices, generate the stub, compile it alone
fn replay_case(path: &Path) -> i32 {
    let j: Json = match std::fs::read_to_string(path).map_err(|e| e.to_string()).and_then(|t| serde_json::from_str(&t).map_err(|e| e.to_string())) {
        Ok(j) => j,
        Err(e) => {
            eprintln!("cannot read {path:?}: {e}");
            return 2;
        }
    };
    let bytes = unhex(j["choices"].as_str().unwrap_or(""));
    let case = if j["subcheck"] == "c26-grid" {
        match grid_case_from(&bytes) {
            Some(c) => c,
            None => {
                eprintln!("not a grid coordinate: {bytes:?}");
                return 2;
            }
        }
    } else {
        gen_case(&bytes)
    };
    let dir = scratch_root().join(format!("replay-{:016x}", fnv64(hex(&bytes).as_bytes())));
    let _ = std::fs::remove_dir_all(&dir);
    std::fs::create_dir_all(dir.join("src")).expect("mkdir");
    let verdict = match generate(&case.sdl, &dir.join("src").join("case_0")) {
        Gen::Refused(m) => {
            println!("replay: documented refusal: {m}");
            0
        }
        Gen::Error(e) | Gen::Panic(e) => {
            eprintln!("generator failed: {e}\nschema:\n{}", case.sdl);
            1
        }
        Gen::Ok => {
            write_batch_crate(&dir, &[0]);
            match compile_batch(&dir, true) {
                Err(e) => {
                    eprintln!("{e}");
                    2
                }
                Ok(errors) if errors.is_empty() => {
                    println!("replay: the stub compiles");
                    0
                }
                Ok(errors) => {
                    eprintln!("{}\nschema:\n{}", errors.values().flatten().cloned().collect::<Vec<_>>().join("\n"), case.sdl);
                    1
                }
            }
        }
    };
    let _ = std::fs::remove_dir_all(&dir);
    if verdict == 1 {
        println!("VIOLATION property=C26 replay={}", path.display());
    }
    verdict
}
