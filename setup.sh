#!/bin/bash
# Builds the framework offline from files on disk only.
set -eu
cd "$(dirname "$0")"
export CARGO_NET_OFFLINE=true
[ -f harness/Cargo.lock ] || cp /repo/Cargo.lock harness/Cargo.lock
( cd harness && cargo build --release --target-dir /verif/target-a )
( cd harness && cargo build --release --features hooks --target-dir /verif/target-b )
for s in scripts/setup_*.sh; do [ -x "$s" ] && "$s"; done
echo "setup done"
