#!/bin/bash
# Builds the framework offline from files on disk only.
set -eu
cd "$(dirname "$0")"
export CARGO_NET_OFFLINE=true
[ -f harness/Cargo.lock ] || cp /repo/Cargo.lock harness/Cargo.lock
( cd harness && cargo build --release --target-dir /verif/target-a )
( cd harness && cargo build --release --features hooks --target-dir /verif/target-b )
# C24: the Send + Sync obligations (/verif/c24) and the harness with the thread-sharing module, in their own target dir
[ -f c24/Cargo.lock ] || cp /repo/Cargo.lock c24/Cargo.lock
( cd c24 && cargo build --release --target-dir /verif/target-c24 )
( cd harness && cargo build --release --features threads --target-dir /verif/target-c24 )
# C26 driver (generates stubs with /repo/trustfall_stubgen and compiles them against /repo/trustfall)
[ -f stub/Cargo.lock ] || cp /repo/Cargo.lock stub/Cargo.lock
( cd stub && cargo build --release --target-dir /verif/target-a )
# C27: the Python bindings, built for the tooling venv's interpreter (rebuilt by the check itself on every run)
( cd /repo && PYO3_PYTHON=/opt/veriftools/pyvenv/bin/python cargo build --release --offline -p pytrustfall --target-dir /verif/target-py )
for s in scripts/setup_*.sh; do [ -x "$s" ] && "$s"; done
echo "setup done"
