//! Shared plumbing: sharded proptest runs over choice streams, statistics, evidence files,
//! replay files and known findings.

use std::{
    collections::{BTreeMap, BTreeSet, HashSet},
    path::{Path, PathBuf},
    sync::Mutex,
    time::Instant,
};

use proptest::{
    collection::vec,
    prelude::any,
    test_runner::{Config, RngSeed, TestCaseError, TestError, TestRunner},
};
use serde_json::{json, Value as Json};

use crate::choice::{fnv64, hex, unhex};

pub const VERIF_ROOT: &str = "/verif";

/// where evidence and replay files are written: `VERIF_OUT` (for ad-hoc deep runs that must not touch the registered
/// evidence) or /verif
pub fn out_root() -> PathBuf {
    std::env::var("VERIF_OUT").map(PathBuf::from).unwrap_or_else(|_| PathBuf::from(VERIF_ROOT))
}

#[derive(Clone, Copy, Debug, PartialEq, Eq)]
pub enum Tier {
    Quick,
    Thorough,
}

impl Tier {
    pub fn name(self) -> &'static str {
        match self {
            Tier::Quick => "quick",
            Tier::Thorough => "thorough",
        }
    }
}

#[derive(Clone, Debug)]
pub struct CheckCtx {
    pub property: String,
    pub tier: Tier,
    pub seed: u64,
    pub replay: Option<PathBuf>,
    pub threads: usize,
    /// multiplier applied to case counts (env VERIF_SCALE, default 1.0)
    pub scale: f64,
}

impl CheckCtx {
    pub fn cases(&self, quick: u64, thorough: u64) -> u64 {
        let base = match self.tier {
            Tier::Quick => quick,
            Tier::Thorough => thorough,
        };
        ((base as f64) * self.scale).max(1.0) as u64
    }
}

#[derive(Debug, Clone)]
pub enum Verdict {
    Pass,
    /// generated but not usable (counted by reason)
    Discard(String),
    /// the property is violated on this case; `sig` is a stable signature used for known findings
    Fail { sig: String, msg: String },
    /// the harness itself is at fault (self-check failed): the run is inconclusive
    HarnessBug(String),
}

#[derive(Default, Debug, Clone)]
pub struct Stats {
    pub evaluations: u64,
    pub nontrivial: HashSet<u64>,
    pub labels: BTreeMap<String, u64>,
    pub discards: BTreeMap<String, u64>,
    pub samples: Vec<Json>,
    pub known_hits: BTreeMap<String, u64>,
    pub extra: BTreeMap<String, u64>,
    pub want_samples: usize,
}

impl Stats {
    pub fn label(&mut self, l: &str) {
        *self.labels.entry(l.to_string()).or_insert(0) += 1;
    }
    pub fn bump(&mut self, k: &str, n: u64) {
        *self.extra.entry(k.to_string()).or_insert(0) += n;
    }
    pub fn discard(&mut self, l: &str) {
        *self.discards.entry(l.to_string()).or_insert(0) += 1;
    }
    /// record a distinct non-trivial case by its hash; returns true when newly inserted
    pub fn nontrivial(&mut self, key: &[u8]) -> bool {
        self.nontrivial.insert(fnv64(key))
    }
    pub fn sample(&mut self, f: impl FnOnce() -> Json) {
        if self.samples.len() < self.want_samples {
            self.samples.push(f());
        }
    }
    pub fn merge(&mut self, other: Stats) {
        self.evaluations += other.evaluations;
        self.nontrivial.extend(other.nontrivial);
        for (k, v) in other.labels {
            *self.labels.entry(k).or_insert(0) += v;
        }
        for (k, v) in other.discards {
            *self.discards.entry(k).or_insert(0) += v;
        }
        for (k, v) in other.known_hits {
            *self.known_hits.entry(k).or_insert(0) += v;
        }
        for (k, v) in other.extra {
            *self.extra.entry(k).or_insert(0) += v;
        }
        for s in other.samples {
            if self.samples.len() < self.want_samples.max(5) {
                self.samples.push(s);
            }
        }
    }
}

// ---------------------------------------------------------------------------------------------
// known findings

#[derive(Clone, Debug)]
pub struct KnownFinding {
    pub id: String,
    pub property: String,
    pub status: String,
    /// all of these substrings must occur in the failure signature
    pub sig_contains: Vec<String>,
    pub what: String,
}

#[derive(Clone, Debug, Default)]
pub struct KnownFindings {
    pub findings: Vec<KnownFinding>,
}

impl KnownFindings {
    pub fn load() -> KnownFindings {
        // VERIF_STRICT=1: no tolerance at all (used to regenerate the committed minimal cases of listed findings)
        if std::env::var("VERIF_STRICT").map(|v| v == "1").unwrap_or(false) {
            return KnownFindings::default();
        }
        let path = Path::new(VERIF_ROOT).join("known_findings.json");
        let Ok(text) = std::fs::read_to_string(&path) else {
            return KnownFindings::default();
        };
        let Ok(j) = serde_json::from_str::<Json>(&text) else {
            eprintln!("warning: known_findings.json does not parse; ignoring");
            return KnownFindings::default();
        };
        let mut findings = vec![];
        for f in j.get("findings").and_then(|x| x.as_array()).cloned().unwrap_or_default() {
            let s = |k: &str| f.get(k).and_then(|x| x.as_str()).unwrap_or("").to_string();
            let sig_contains = f
                .get("sig_contains")
                .and_then(|x| x.as_array())
                .map(|a| a.iter().filter_map(|x| x.as_str().map(|s| s.to_string())).collect())
                .unwrap_or_default();
            findings.push(KnownFinding {
                id: s("id"),
                property: s("property"),
                status: s("status"),
                sig_contains,
                what: s("what"),
            });
        }
        KnownFindings { findings }
    }

    /// open findings listed for `property` whose signature pattern matches `sig`
    pub fn matching(&self, property: &str, sig: &str) -> Option<&KnownFinding> {
        self.findings.iter().find(|f| {
            f.status == "open"
                && f.property == property
                && !f.sig_contains.is_empty()
                && f.sig_contains.iter().all(|s| sig.contains(s.as_str()))
        })
    }

    pub fn open_for(&self, property: &str) -> Vec<&KnownFinding> {
        self.findings.iter().filter(|f| f.status == "open" && f.property == property).collect()
    }
}

// ---------------------------------------------------------------------------------------------
// sharded search

pub struct Violation {
    pub sig: String,
    pub msg: String,
    pub choices: Vec<u8>,
    pub subcheck: String,
}

pub struct SearchResult {
    pub stats: Stats,
    pub violations: Vec<Violation>,
    pub harness_bugs: Vec<String>,
}

/// Runs `case` on `cases` generated choice streams of length `min_len..=max_len`, sharded over threads.
/// `case(bytes, stats, counting)` must be a pure function of `bytes`.
pub fn search<F>(ctx: &CheckCtx, subcheck: &str, cases: u64, min_len: usize, max_len: usize, case: F) -> SearchResult
where
    F: Fn(&[u8], &mut Stats, bool) -> Verdict + Sync,
{
    let known = KnownFindings::load();
    let threads = ctx.threads.max(1);
    let per_shard = cases.div_ceil(threads as u64);
    let results: Mutex<Vec<(Stats, Option<Violation>, Option<String>)>> = Mutex::new(vec![]);
    let sub_hash = fnv64(subcheck.as_bytes());
    let slow_ms: Option<u64> = std::env::var("VERIF_SLOW_MS").ok().and_then(|s| s.parse().ok());
    std::thread::scope(|scope| {
        for shard in 0..threads {
            let known = &known;
            let case = &case;
            let results = &results;
            let property = ctx.property.clone();
            let seed = ctx.seed;
            let subcheck = subcheck.to_string();
            std::thread::Builder::new()
                .stack_size(64 << 20)
                .spawn_scoped(scope, move || {
                    let mut seed_bytes = [0u8; 32];
                    let mixed = seed
                        .wrapping_mul(0x9E3779B97F4A7C15)
                        .wrapping_add((shard as u64 + 1).wrapping_mul(0xD1B54A32D192ED03))
                        ^ sub_hash;
                    for (i, b) in seed_bytes.iter_mut().enumerate() {
                        *b = (mixed.rotate_left((i as u32 * 7) % 64) >> ((i % 8) * 8)) as u8 ^ (i as u8);
                    }
                    let _ = seed_bytes;
                    let config = Config {
                        cases: per_shard as u32,
                        failure_persistence: None,
                        max_shrink_iters: 4000,
                        rng_seed: RngSeed::Fixed(mixed),
                        ..Config::default()
                    };
                    let mut runner = TestRunner::new(config);
                    let stats = std::cell::RefCell::new(Stats {
                        want_samples: if shard == 0 { 5 } else { 1 },
                        ..Stats::default()
                    });
                    let failed = std::cell::Cell::new(false);
                    let harness_bug: std::cell::RefCell<Option<String>> = std::cell::RefCell::new(None);
                    let strategy = vec(any::<u8>(), min_len..=max_len);
                    let outcome = runner.run(&strategy, |bytes| {
                        let counting = !failed.get();
                        let mut st = stats.borrow_mut();
                        if counting {
                            st.evaluations += 1;
                        }
                        // a panic that escapes the case function is a harness fault, never a violation
                        let started = slow_ms.map(|_| Instant::now());
                        let verdict = match crate::engine::catch(|| {
                            if counting {
                                case(&bytes, &mut st, true)
                            } else {
                                let mut scratch = Stats::default();
                                case(&bytes, &mut scratch, false)
                            }
                        }) {
                            Ok(v) => v,
                            Err(p) => Verdict::HarnessBug(format!("case function panicked: {}", p.render())),
                        };
                        // diagnostics only (never part of a verdict): VERIF_SLOW_MS=<n> lists the cases slower than n ms
                        if let (Some(limit), Some(t)) = (slow_ms, started) {
                            let ms = t.elapsed().as_millis() as u64;
                            if ms >= limit {
                                eprintln!("slow case: {ms} ms subcheck={subcheck} choices={}", hex(&bytes));
                            }
                        }
                        match verdict {
                            Verdict::Pass => Ok(()),
                            Verdict::Discard(reason) => {
                                if counting {
                                    st.discard(&reason);
                                }
                                Ok(())
                            }
                            Verdict::HarnessBug(m) => {
                                // not a property violation; remember and keep going
                                let mut hb = harness_bug.borrow_mut();
                                if hb.is_none() {
                                    *hb = Some(format!("{m} [choices={}]", hex(&bytes)));
                                }
                                Ok(())
                            }
                            Verdict::Fail { sig, msg } => {
                                if let Some(kf) = known.matching(&property, &sig) {
                                    if counting {
                                        *st.known_hits.entry(kf.id.clone()).or_insert(0) += 1;
                                    }
                                    Ok(())
                                } else {
                                    failed.set(true);
                                    Err(TestCaseError::fail(format!("{sig}\u{1}{msg}")))
                                }
                            }
                        }
                    });
                    let violation = match outcome {
                        Ok(()) => None,
                        Err(TestError::Fail(reason, bytes)) => {
                            let text = reason.message().to_string();
                            let (sig, msg) = match text.split_once('\u{1}') {
                                Some((a, b)) => (a.to_string(), b.to_string()),
                                None => (text.clone(), text),
                            };
                            Some(Violation { sig, msg, choices: bytes, subcheck })
                        }
                        Err(TestError::Abort(reason)) => {
                            let mut hb = harness_bug.borrow_mut();
                            *hb = Some(format!("proptest aborted: {}", reason.message()));
                            None
                        }
                    };
                    let hb = harness_bug.borrow().clone();
                    results.lock().unwrap().push((stats.into_inner(), violation, hb));
                })
                .expect("spawn shard");
        }
    });
    let mut stats = Stats { want_samples: 5, ..Stats::default() };
    let mut violations = vec![];
    let mut harness_bugs = vec![];
    for (s, v, hb) in results.into_inner().unwrap() {
        stats.merge(s);
        if let Some(v) = v {
            violations.push(v);
        }
        if let Some(hb) = hb {
            harness_bugs.push(hb);
        }
    }
    SearchResult { stats, violations, harness_bugs }
}

// ---------------------------------------------------------------------------------------------
// replay files and evidence

pub fn write_replay(property: &str, subcheck: &str, choices: &[u8], sig: &str, msg: &str, rendered: Json) -> PathBuf {
    let dir = out_root().join("corpus").join(property);
    let _ = std::fs::create_dir_all(&dir);
    let h = fnv64(&[choices, subcheck.as_bytes()].concat());
    let path = dir.join(format!("fail-{h:016x}.json"));
    let j = json!({
        "property": property,
        "subcheck": subcheck,
        "choices": hex(choices),
        "signature": sig,
        "message": msg,
        "rendered": rendered,
    });
    let _ = std::fs::write(&path, serde_json::to_string_pretty(&j).unwrap());
    path
}

pub struct ReplayCase {
    pub subcheck: String,
    pub choices: Vec<u8>,
    pub raw: Json,
}

pub fn read_replay(path: &Path) -> Result<ReplayCase, String> {
    let text = std::fs::read_to_string(path).map_err(|e| format!("cannot read {path:?}: {e}"))?;
    let j: Json = serde_json::from_str(&text).map_err(|e| format!("cannot parse {path:?}: {e}"))?;
    Ok(ReplayCase {
        subcheck: j.get("subcheck").and_then(|x| x.as_str()).unwrap_or("").to_string(),
        choices: unhex(j.get("choices").and_then(|x| x.as_str()).unwrap_or("")),
        raw: j,
    })
}

/// saved cases (regression corpus) for a property: committed `seed-*.json` and any `fail-*.json`
pub fn corpus_files(property: &str) -> Vec<PathBuf> {
    let dir = Path::new(VERIF_ROOT).join("corpus").join(property);
    let mut v: Vec<PathBuf> = std::fs::read_dir(&dir)
        .map(|rd| rd.filter_map(|e| e.ok().map(|e| e.path())).collect())
        .unwrap_or_default();
    v.retain(|p| p.extension().map(|e| e == "json").unwrap_or(false));
    v.sort();
    v
}

pub struct Evidence {
    pub property: String,
    pub tier: Tier,
    pub seed: u64,
    pub rule: String,
    pub stats: Stats,
    pub assumptions: Vec<String>,
    pub violations: usize,
    pub wall_s: f64,
    pub exhaustive: Option<bool>,
    pub extra: BTreeMap<String, Json>,
}

/// Memory watchdog: a check that grows beyond `limit_gb` resident memory stops with exit code 2 (inconclusive)
/// instead of taking the machine down; never a violation.
pub fn start_memory_watchdog(limit_gb: u64) {
    std::thread::spawn(move || loop {
        std::thread::sleep(std::time::Duration::from_millis(500));
        if let Ok(statm) = std::fs::read_to_string("/proc/self/statm") {
            let resident_pages: u64 = statm.split_whitespace().nth(1).and_then(|x| x.parse().ok()).unwrap_or(0);
            if resident_pages * 4096 > limit_gb << 30 {
                eprintln!("INCONCLUSIVE: memory watchdog: resident set above {limit_gb} GB; stopping (not a violation)");
                std::process::exit(2);
            }
        }
    });
}

/// the case-count multiplier of this process (env VERIF_SCALE, default 1); recorded in every evidence file
pub fn env_scale() -> f64 {
    std::env::var("VERIF_SCALE").ok().and_then(|s| s.parse().ok()).unwrap_or(1.0)
}

impl Evidence {
    pub fn write(&self) {
        let dir = out_root().join("evidence");
        let _ = std::fs::create_dir_all(&dir);
        let total = self.stats.evaluations.max(1);
        let mut coverage = serde_json::Map::new();
        coverage.insert("evaluations".into(), json!(self.stats.evaluations));
        coverage.insert("distinct_nontrivial".into(), json!(self.stats.nontrivial.len()));
        coverage.insert("rule".into(), json!(self.rule));
        coverage.insert("samples".into(), Json::Array(self.stats.samples.clone()));
        coverage.insert(
            "label_histogram".into(),
            json!(self
                .stats
                .labels
                .iter()
                .map(|(k, v)| (k.clone(), json!({"count": v, "fraction": (*v as f64) / (total as f64)})))
                .collect::<serde_json::Map<_, _>>()),
        );
        coverage.insert("discards".into(), json!(self.stats.discards));
        coverage.insert("known_finding_hits".into(), json!(self.stats.known_hits));
        coverage.insert("counters".into(), json!(self.stats.extra));
        coverage.insert("case_count_scale".into(), json!(env_scale()));
        if let Some(e) = self.exhaustive {
            coverage.insert("exhaustive".into(), json!(e));
        }
        for (k, v) in &self.extra {
            coverage.insert(k.clone(), v.clone());
        }
        let j = json!({
            "property_id": self.property,
            "tier": self.tier.name(),
            "seed": self.seed,
            "level": "exploration",
            "coverage": Json::Object(coverage),
            "assumptions": self.assumptions,
            "wall_s": self.wall_s,
            "violations": self.violations,
        });
        let path = dir.join(format!("{}.json", self.property));
        std::fs::write(&path, serde_json::to_string_pretty(&j).unwrap()).expect("write evidence");
    }
}

/// Outcome of a whole check; converted to the process exit code by `main`.
pub struct CheckOutcome {
    pub violations: Vec<(String, PathBuf)>,
    pub known_lines: BTreeSet<String>,
    pub inconclusive: Vec<String>,
}

impl CheckOutcome {
    pub fn new() -> Self {
        Self { violations: vec![], known_lines: BTreeSet::new(), inconclusive: vec![] }
    }
}

impl Default for CheckOutcome {
    fn default() -> Self {
        Self::new()
    }
}

pub struct Timer(Instant);
impl Timer {
    pub fn start() -> Self {
        Timer(Instant::now())
    }
    pub fn secs(&self) -> f64 {
        self.0.elapsed().as_secs_f64()
    }
}
