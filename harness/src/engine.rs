//! Thin, panic-catching wrappers around the engine's public API.

use std::{
    cell::RefCell,
    collections::BTreeMap,
    panic::{self, AssertUnwindSafe},
    sync::{Arc, Once},
};

use trustfall_core::{
    frontend,
    interpreter::{execution::interpret_ir, Adapter},
    ir::{FieldValue, IndexedQuery},
    schema::Schema,
};

use crate::reference::Row;
use crate::values::Value;

#[derive(Clone, Debug)]
pub struct PanicInfo {
    pub message: String,
    pub location: String,
}

impl PanicInfo {
    pub fn in_engine(&self) -> bool {
        self.location.contains("trustfall_core/src") || self.location.contains("/repo/")
    }
    pub fn in_harness(&self) -> bool {
        self.message.contains("HARNESS:")
    }
    /// the honest adapter's work limit was reached (harness protection; the case is discarded)
    pub fn is_budget(&self) -> bool {
        self.message.contains(crate::adapter::BUDGET_MARKER)
    }
    /// location without line number (stable across edits): file name only
    pub fn file(&self) -> String {
        let f = self.location.rsplit('/').next().unwrap_or("");
        f.split(':').next().unwrap_or("").to_string()
    }
    pub fn render(&self) -> String {
        format!("panic at {}: {}", self.location, self.message)
    }
}

thread_local! {
    static LAST_PANIC: RefCell<Option<PanicInfo>> = const { RefCell::new(None) };
    static QUIET: RefCell<bool> = const { RefCell::new(false) };
}

static HOOK: Once = Once::new();

pub fn install_panic_hook() {
    HOOK.call_once(|| {
        let prev = panic::take_hook();
        panic::set_hook(Box::new(move |info| {
            let message = if let Some(s) = info.payload().downcast_ref::<&str>() {
                s.to_string()
            } else if let Some(s) = info.payload().downcast_ref::<String>() {
                s.clone()
            } else {
                "<non-string panic payload>".to_string()
            };
            let location = info
                .location()
                .map(|l| format!("{}:{}", l.file(), l.line()))
                .unwrap_or_else(|| "<unknown>".into());
            LAST_PANIC.with(|p| *p.borrow_mut() = Some(PanicInfo { message, location }));
            let quiet = QUIET.with(|q| *q.borrow());
            if !quiet {
                prev(info);
            }
        }));
    });
}

/// Runs `f`, converting a panic into `Err(PanicInfo)` (message and source location).
pub fn catch<T>(f: impl FnOnce() -> T) -> Result<T, PanicInfo> {
    install_panic_hook();
    let was = QUIET.with(|q| q.replace(true));
    LAST_PANIC.with(|p| *p.borrow_mut() = None);
    let r = panic::catch_unwind(AssertUnwindSafe(f));
    QUIET.with(|q| *q.borrow_mut() = was);
    match r {
        Ok(v) => Ok(v),
        Err(_) => Err(LAST_PANIC.with(|p| p.borrow_mut().take()).unwrap_or(PanicInfo {
            message: "<panic without hook info>".into(),
            location: "<unknown>".into(),
        })),
    }
}

pub fn args_to_engine(args: &BTreeMap<String, Value>) -> Arc<BTreeMap<Arc<str>, FieldValue>> {
    Arc::new(args.iter().map(|(k, v)| (Arc::from(k.as_str()), v.to_field_value())).collect())
}

pub fn row_from_engine(r: &BTreeMap<Arc<str>, FieldValue>) -> Row {
    r.iter().map(|(k, v)| (k.to_string(), Value::from_field_value(v))).collect()
}

#[derive(Debug)]
pub enum CompileOutcome {
    Ok(Arc<IndexedQuery>),
    Err(String),
    Panic(PanicInfo),
}

pub fn parse_schema(sdl: &str) -> Result<Result<Schema, String>, PanicInfo> {
    catch(|| Schema::parse(sdl).map_err(|e| format!("{e:?}")))
}

pub fn compile(schema: &Schema, query: &str) -> CompileOutcome {
    match catch(|| frontend::parse(schema, query)) {
        Ok(Ok(iq)) => CompileOutcome::Ok(iq),
        Ok(Err(e)) => CompileOutcome::Err(format!("{e:?}")),
        Err(p) => CompileOutcome::Panic(p),
    }
}

#[derive(Debug)]
pub enum ExecOutcome {
    Rows(Vec<BTreeMap<Arc<str>, FieldValue>>),
    ArgError(String),
    /// panic, together with the rows produced before it
    Panic(PanicInfo, usize),
    /// the honest adapter's work limit was reached: not an outcome of the engine, the case is discarded
    Budget,
}

/// Executes to exhaustion (or to `limit` rows) on the given adapter.
pub fn execute<'a, A: Adapter<'a> + 'a>(
    adapter: Arc<A>,
    iq: Arc<IndexedQuery>,
    args: Arc<BTreeMap<Arc<str>, FieldValue>>,
    limit: usize,
) -> ExecOutcome {
    let mut rows = vec![];
    // harness protection: rows of nested folds can hold millions of values each (one generated case needed 6 GB for its
    // 10 000 rows); past this many values in total the case is discarded like one that exhausts the work budget
    const MAX_OUTPUT_VALUES: usize = 3_000_000;
    fn weight(v: &FieldValue) -> usize {
        match v {
            FieldValue::List(l) => 1 + l.iter().map(weight).sum::<usize>(),
            _ => 1,
        }
    }
    let mut output_values = 0usize;
    let mut too_big = false;
    let r = catch(|| {
        match interpret_ir(adapter, iq, args) {
            Err(e) => return Some(format!("{e:?}")),
            Ok(iter) => {
                for row in iter {
                    output_values += row.values().map(weight).sum::<usize>();
                    rows.push(row);
                    if output_values > MAX_OUTPUT_VALUES {
                        too_big = true;
                        break;
                    }
                    if rows.len() >= limit {
                        break;
                    }
                }
            }
        }
        None
    });
    if too_big {
        return ExecOutcome::Budget;
    }
    match r {
        Ok(None) => ExecOutcome::Rows(rows),
        Ok(Some(e)) => ExecOutcome::ArgError(e),
        Err(p) if p.is_budget() => ExecOutcome::Budget,
        Err(p) => ExecOutcome::Panic(p, rows.len()),
    }
}
