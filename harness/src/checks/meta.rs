//! C22 (fold-count early termination is invisible) and C23 (metamorphic query transformations).

use std::{collections::BTreeMap, sync::Arc};

use serde_json::json;

use crate::adapter::GraphAdapter;
use crate::checks::world::{c01_case, default_gen_config, render_world_case, ROW_LIMIT, WORLD_MAX_LEN, WORLD_MIN_LEN};
use crate::checks::{replay_with, Report};
use crate::choice::Choices;
use crate::data::gen_value_of_type;
use crate::engine::{self, CompileOutcome, ExecOutcome};
use crate::query_ast::{annotate, infer_var_type, prop_type, ANode, Arg, CountSel, EdgeSel, Filter, PropSel, Query, Sel};
use crate::reference::{canon_row, RefEval, Row};
use crate::runner::{search, CheckCtx, Stats, Verdict};
use crate::schema_ast::ParamSem;
use crate::values::{Op, Value};
use crate::worldcase::{compile_case, decode_world_case, GenConfig, WorldCase};

// ---------------------------------------------------------------------------------------------
// AST navigation

/// paths (body indices) of every edge selection below the root; the root itself is the empty path
pub fn edge_paths(q: &Query) -> Vec<Vec<usize>> {
    fn go(e: &EdgeSel, prefix: &mut Vec<usize>, out: &mut Vec<Vec<usize>>) {
        out.push(prefix.clone());
        for (i, s) in e.body.iter().enumerate() {
            if let Sel::Edge(ch) = s {
                prefix.push(i);
                go(ch, prefix, out);
                prefix.pop();
            }
        }
    }
    let mut out = vec![];
    go(&q.root, &mut vec![], &mut out);
    out
}

pub fn edge_at<'a>(q: &'a Query, path: &[usize]) -> &'a EdgeSel {
    let mut e = &q.root;
    for i in path {
        match &e.body[*i] {
            Sel::Edge(ch) => e = ch,
            _ => panic!("HARNESS: bad path"),
        }
    }
    e
}

pub fn edge_at_mut<'a>(q: &'a mut Query, path: &[usize]) -> &'a mut EdgeSel {
    let mut e = &mut q.root;
    for i in path {
        match &mut e.body[*i] {
            Sel::Edge(ch) => e = ch,
            _ => panic!("HARNESS: bad path"),
        }
    }
    e
}

/// the annotated node for a path (annotation keeps edge children in text order)
pub fn anode_at<'a>(root: &'a ANode, q: &Query, path: &[usize]) -> &'a ANode {
    let mut n = root;
    let mut e = &q.root;
    for i in path {
        let edge_index = e.body[..*i].iter().filter(|s| matches!(s, Sel::Edge(_))).count();
        n = &n.children[edge_index];
        e = match &e.body[*i] {
            Sel::Edge(ch) => ch,
            _ => panic!("HARNESS: bad path"),
        };
    }
    n
}

/// is any edge on the path (excluding the root) a fold
fn inside_fold(q: &Query, path: &[usize]) -> bool {
    (1..=path.len()).any(|k| edge_at(q, &path[..k]).fold)
}

const RUN_QUERY_PULL_BUDGET: u64 = 400_000;

struct RunOut {
    rows: Vec<Row>,
}

fn run_query(case: &WorldCase, q: &Query, args: &BTreeMap<String, Value>) -> Result<RunOut, String> {
    let text = q.render();
    let schema = match engine::parse_schema(&case.sdl) {
        Ok(Ok(s)) => s,
        _ => return Err("schema".into()),
    };
    let iq = match engine::compile(&schema, &text) {
        CompileOutcome::Ok(iq) => iq,
        CompileOutcome::Err(e) => return Err(format!("rejected:{}", e.split(['(', ' ']).next().unwrap_or(""))),
        CompileOutcome::Panic(_) => return Err("frontend-panic(C10)".into()),
    };
    // harness protection: a transformed query (deeper recursion, dropped filter) can need minutes; such cases are
    // discarded by a pull budget instead
    let (adapter, budget) = crate::wrappers::BudgetAdapter::new(GraphAdapter::new(case.world.clone()), RUN_QUERY_PULL_BUDGET);
    #[allow(clippy::arc_with_non_send_sync)]
    let outcome = engine::execute(Arc::new(adapter), iq, engine::args_to_engine(args), ROW_LIMIT);
    if budget.exhausted() {
        return Err("too-much-work".into());
    }
    match outcome {
        ExecOutcome::Budget => return Err("too-much-work".into()),
        ExecOutcome::Rows(r) => {
            if r.len() >= ROW_LIMIT {
                return Err("too-many-rows".into());
            }
            Ok(RunOut { rows: r.iter().map(engine::row_from_engine).collect() })
        }
        ExecOutcome::ArgError(_) => Err("args-rejected(C12)".into()),
        ExecOutcome::Panic(..) => Err("engine-panic(C09)".into()),
    }
}

fn multiset(rows: &[Row]) -> BTreeMap<String, usize> {
    let mut m = BTreeMap::new();
    for r in rows {
        *m.entry(canon_row(r)).or_insert(0) += 1;
    }
    m
}

/// list values with their elements sorted (recursively) by canonical text
fn sort_lists(v: &Value) -> Value {
    match v {
        Value::List(items) => {
            let mut sorted: Vec<Value> = items.iter().map(sort_lists).collect();
            sorted.sort_by_key(|x| x.canon());
            Value::List(sorted)
        }
        other => other.clone(),
    }
}

fn sort_lists_in_row(r: &Row) -> Row {
    r.iter().map(|(k, v)| (k.clone(), sort_lists(v))).collect()
}

fn sub_multiset(a: &BTreeMap<String, usize>, b: &BTreeMap<String, usize>) -> bool {
    a.iter().all(|(k, n)| b.get(k).copied().unwrap_or(0) >= *n)
}

fn project(rows: &[Row], keys: &[String]) -> Vec<Row> {
    rows.iter().map(|r| r.iter().filter(|(k, _)| keys.contains(k)).map(|(k, v)| (k.clone(), v.clone())).collect()).collect()
}

// ---------------------------------------------------------------------------------------------
// C22

fn c22_gen_config() -> GenConfig {
    let mut cfg = default_gen_config();
    cfg.query.fold_bias = true;
    cfg.query.quiet_folds = true;
    cfg
}

/// did some fold's size exceed the bound of one of its count filters (so an early-termination shortcut could fire)
fn shortcut_exercised(case: &WorldCase, re: &RefEval<'_>) -> bool {
    let mut hit = false;
    case.ann.root.walk(&mut |n| {
        if let Some(cs) = &n.count {
            let sizes = re.fold_sizes.get(&n.vid).cloned().unwrap_or_default();
            for f in &cs.filters {
                if let Some(Arg::Var(v)) = &f.arg {
                    let bounds: Vec<i128> = match case.args.get(v) {
                        Some(Value::Int { v, .. }) => vec![*v],
                        Some(Value::List(l)) => l.iter().filter_map(|x| if let Value::Int { v, .. } = x { Some(*v) } else { None }).collect(),
                        _ => vec![],
                    };
                    let max_b = bounds.iter().copied().max().unwrap_or(0).max(0);
                    if sizes.iter().any(|s| (*s as i128) > max_b + 1) || sizes.iter().any(|s| *s >= 2 && max_b <= 1) {
                        hit = true;
                    }
                }
            }
        }
    });
    hit
}

pub fn c22_reference_case(bytes: &[u8], stats: &mut Stats, counting: bool, cfg: &GenConfig) -> Verdict {
    // same oracle as C01, on fold-biased worlds; re-labelled
    let mut scratch = Stats::default();
    let v = c01_case(bytes, &mut scratch, false, cfg);
    if counting {
        let mut c = Choices::new(bytes);
        let case = decode_world_case(&mut c, cfg);
        for l in case.features.labels() {
            stats.label(l);
        }
        if case.features.count_filter > 0 {
            let mut re = RefEval::new(&case.world, &case.ann, &case.args);
            if re.eval().is_ok() && shortcut_exercised(&case, &re) && stats.nontrivial(&case.key()) {
                stats.sample(|| case.short_json());
            }
        }
    }
    match v {
        Verdict::Fail { sig, msg } => Verdict::Fail { sig: sig.replace("c01:", "c22:reference:"), msg },
        other => other,
    }
}

/// Q+ = Q plus observers on one fold that has count filters
fn add_observers(c: &mut Choices<'_>, case: &WorldCase) -> Option<(Query, Vec<&'static str>)> {
    let q = &case.query;
    let paths: Vec<Vec<usize>> = edge_paths(q)
        .into_iter()
        .filter(|p| !p.is_empty() && edge_at(q, p).fold && edge_at(q, p).count.as_ref().map(|c| !c.filters.is_empty()).unwrap_or(false))
        .collect();
    if paths.is_empty() {
        return None;
    }
    let path = paths[c.below(paths.len())].clone();
    let mut q2 = q.clone();
    let mut kinds = vec![];
    let mut which = 1 + c.below(7); // non-empty subset of three observers
    let original_fold = edge_at(q, &path).clone();
    if defines_tags(&original_fold) {
        // the copy used by the third observer cannot duplicate tag definitions
        which &= 3;
        if which == 0 {
            which = 1;
        }
    }
    let fold_clone;
    {
        let f = edge_at_mut(&mut q2, &path);
        let cs = f.count.as_mut().unwrap();
        if which & 1 != 0 {
            cs.outputs.push(Some("obs_count".into()));
            kinds.push("count_output");
        }
        if which & 2 != 0 {
            f.body.push(Sel::Prop(PropSel { name: "__typename".into(), outputs: vec![Some("obs_inner".into())], ..Default::default() }));
            kinds.push("inner_output");
        }
        if which & 4 != 0 {
            f.count.as_mut().unwrap().tags.push("obsT".into());
            kinds.push("count_tag_used_by_sibling_fold");
        }
        fold_clone = f.clone();
    }
    if which & 4 != 0 {
        // a later sibling fold that is an exact copy of the observed one (outputs removed): by determinism its
        // count equals the observed count, so `= %obsT` is always true
        let (parent_path, idx) = (&path[..path.len() - 1], *path.last().unwrap());
        let parent = edge_at_mut(&mut q2, parent_path);
        let mut sibling = original_fold.clone();
        strip_outputs(&mut sibling);
        sibling.alias = None;
        sibling.count = Some(CountSel { outputs: vec![], filters: vec![Filter { op: Op::Eq, arg: Some(Arg::Tag("obsT".into())) }], tags: vec![] });
        parent.body.insert(idx + 1, Sel::Edge(sibling));
    }
    let _ = fold_clone;
    Some((q2, kinds))
}

fn defines_tags(e: &EdgeSel) -> bool {
    e.count.as_ref().map(|c| !c.tags.is_empty()).unwrap_or(false)
        || e.body.iter().any(|s| match s {
            Sel::Prop(p) => !p.tags.is_empty(),
            Sel::Edge(ch) => defines_tags(ch),
        })
}

fn strip_outputs(e: &mut EdgeSel) {
    if let Some(cs) = e.count.as_mut() {
        cs.outputs.clear();
    }
    for s in e.body.iter_mut() {
        match s {
            Sel::Prop(p) => p.outputs.clear(),
            Sel::Edge(ch) => strip_outputs(ch),
        }
    }
}

pub fn c22_meta_case(bytes: &[u8], stats: &mut Stats, counting: bool, cfg: &GenConfig) -> Verdict {
    let mut c = Choices::new(bytes);
    let sel = c.byte();
    let case = decode_world_case(&mut c, cfg);
    if case.features.count_filter == 0 {
        return Verdict::Discard("no-count-filter".into());
    }
    let mut c2 = Choices::new(std::slice::from_ref(&sel));
    let Some((q2, kinds)) = add_observers(&mut c2, &case) else {
        return Verdict::Discard("no-fold-with-count-filter".into());
    };
    let base = match run_query(&case, &case.query, &case.args) {
        Ok(r) => r,
        Err(e) => return Verdict::Discard(format!("base:{e}")),
    };
    let plus = match run_query(&case, &q2, &case.args) {
        Ok(r) => r,
        Err(e) => return Verdict::Discard(format!("observed:{e}")),
    };
    let keys: Vec<String> = case.ann.root.all_output_names();
    let projected = project(&plus.rows, &keys);
    if counting {
        for k in &kinds {
            stats.label(&format!("observer:{k}"));
        }
        let mut re = RefEval::new(&case.world, &case.ann, &case.args);
        if re.eval().is_ok() && shortcut_exercised(&case, &re) {
            let mut key = case.key();
            key.push(sel);
            if stats.nontrivial(&key) {
                stats.sample(|| json!({"query": case.query_text, "observed_query": q2.render(), "args": format!("{:?}", case.args)}));
            }
        }
    }
    if multiset(&projected) == multiset(&base.rows) {
        Verdict::Pass
    } else {
        Verdict::Fail {
            sig: format!("c22:observers-change-results|{}", kinds.join(",")),
            msg: format!(
                "observing a fold changed the other outputs or the row set: {} rows vs {} rows\nquery:\n{}\nobserved query:\n{}\nargs: {:?}",
                base.rows.len(),
                plus.rows.len(),
                case.query_text,
                q2.render(),
                case.args
            ),
        }
    }
}

fn has_outputs(e: &EdgeSel) -> bool {
    e.count.as_ref().map(|c| !c.outputs.is_empty()).unwrap_or(false)
        || e.body.iter().any(|s| match s {
            Sel::Prop(p) => !p.outputs.is_empty(),
            Sel::Edge(ch) => has_outputs(ch),
        })
}

/// Q- = Q with every observer removed from one filtered fold (all outputs inside it and on its count), which is what
/// makes the fold eligible for early termination; rows of Q projected onto Q-'s outputs must equal rows of Q-.
/// Both queries get one extra root-level output so that Q- always has an output.
pub fn c22_strip_case(bytes: &[u8], stats: &mut Stats, counting: bool, cfg: &GenConfig) -> Verdict {
    let mut c = Choices::new(bytes);
    let sel = c.byte();
    let case = decode_world_case(&mut c, cfg);
    if case.features.count_filter == 0 {
        return Verdict::Discard("no-count-filter".into());
    }
    let q = &case.query;
    let paths: Vec<Vec<usize>> = edge_paths(q)
        .into_iter()
        .filter(|p| {
            !p.is_empty() && {
                let e = edge_at(q, p);
                e.fold && e.count.as_ref().map(|c| !c.filters.is_empty()).unwrap_or(false) && has_outputs(e)
            }
        })
        .collect();
    if paths.is_empty() {
        return Verdict::Discard("no-observed-fold-with-count-filter".into());
    }
    let path = paths[(sel as usize * paths.len()) >> 8].clone();
    let mut base = q.clone();
    base.root.body.push(Sel::Prop(PropSel { name: "__typename".into(), outputs: vec![Some("obs_root".into())], ..Default::default() }));
    let mut stripped = base.clone();
    strip_outputs(edge_at_mut(&mut stripped, &path));
    let full = match run_query(&case, &base, &case.args) {
        Ok(r) => r,
        Err(e) => return Verdict::Discard(format!("base:{e}")),
    };
    let less = match run_query(&case, &stripped, &case.args) {
        Ok(r) => r,
        Err(e) => return Verdict::Discard(format!("stripped:{e}")),
    };
    let keys: Vec<String> = less.rows.first().map(|r| r.keys().cloned().collect()).unwrap_or_default();
    let projected = project(&full.rows, &keys);
    if counting {
        stats.label("observers_stripped_from_a_filtered_fold");
        let n_filters = edge_at(q, &path).count.as_ref().map(|c| c.filters.len()).unwrap_or(0);
        if n_filters >= 2 {
            stats.label("stripped_fold_has_two_or_more_count_filters");
        }
        let mut re = RefEval::new(&case.world, &case.ann, &case.args);
        if re.eval().is_ok() && shortcut_exercised(&case, &re) {
            let mut key = case.key();
            key.push(sel);
            key.push(0xfe);
            if stats.nontrivial(&key) {
                stats.sample(|| json!({"query": base.render(), "stripped_query": stripped.render(), "args": format!("{:?}", case.args)}));
            }
        }
    }
    let same = if less.rows.is_empty() { full.rows.is_empty() } else { multiset(&projected) == multiset(&less.rows) };
    if same {
        Verdict::Pass
    } else {
        Verdict::Fail {
            sig: "c22:removing-observers-changes-results".into(),
            msg: format!(
                "removing all outputs from a count-filtered fold changed the other outputs or the row set: {} rows vs {} rows\nquery:\n{}\nstripped query:\n{}\nargs: {:?}",
                full.rows.len(),
                less.rows.len(),
                base.render(),
                stripped.render(),
                case.args
            ),
        }
    }
}

pub fn c22(ctx: &CheckCtx) -> i32 {
    let cfg = c22_gen_config();
    if ctx.replay.is_some() {
        return replay_with(ctx, &|sub, b| {
            match sub {
                "c22-meta" => c22_meta_case(b, &mut Stats::default(), false, &cfg),
                "c22-strip" => c22_strip_case(b, &mut Stats::default(), false, &cfg),
                _ => c22_reference_case(b, &mut Stats::default(), false, &cfg),
            }
        });
    }
    let mut report = Report::new(
        ctx,
        "choice stream -> world biased towards folds with count filters (every operator, operands -2..4 and extremes, one_of \
         lists incl. empty, nested folds, count tags used in sibling folds, outputs nowhere / on the count / inside / only in a \
         nested fold). Oracle (a): the reference interpreter, which always materialises folds fully. Oracle (b), engine vs \
         engine: Q+ = Q plus observers on one filtered fold (count @output, inner @output, count @tag consumed by an always-true \
         filter of a later sibling fold); rows of Q+ projected onto Q's outputs must equal rows of Q. Oracle (c), engine vs engine: \
         Q- = Q with every output removed from one filtered fold (which makes it eligible for early termination); rows of Q \
         projected onto Q-'s outputs must equal rows of Q-. Non-trivial: some fold's \
         true size exceeds a count-filter bound so that early termination could fire; distinct by case hash.",
    );
    let cases = ctx.cases(150_000, 2_000_000);
    let res = search(ctx, "c22-reference", cases, WORLD_MIN_LEN, WORLD_MAX_LEN, |b, s, k| c22_reference_case(b, s, k, &cfg));
    report.absorb(res, &|b| render_world_case(b, &cfg));
    let cases = ctx.cases(150_000, 2_000_000);
    let res = search(ctx, "c22-meta", cases, WORLD_MIN_LEN, WORLD_MAX_LEN, |b, s, k| c22_meta_case(b, s, k, &cfg));
    report.absorb(res, &|b| render_world_case(&b[1.min(b.len())..], &cfg));
    let cases = ctx.cases(200_000, 3_000_000);
    let res = search(ctx, "c22-strip", cases, WORLD_MIN_LEN, WORLD_MAX_LEN, |b, s, k| c22_strip_case(b, s, k, &cfg));
    report.absorb(res, &|b| render_world_case(&b[1.min(b.len())..], &cfg));
    report.finish()
}

// ---------------------------------------------------------------------------------------------
// C23

const RELATIONS: [&str; 10] = [
    "add_count_filter",
    "count_filter_and_negation_partition",
    "add_filter",
    "raise_recurse_depth",
    "add_optional",
    "parameter_as_filter",
    "eq_as_one_of",
    "filter_and_negation_partition",
    "rename_outputs_and_tags",
    "permute_siblings",
];

struct Transformed {
    /// replaces the generated query as the base of the relation (e.g. the same query with one fold's observers removed)
    base: Option<Query>,
    queries: Vec<(Query, BTreeMap<String, Value>)>,
    /// output-name mapping from the base query's names to the transformed query's names
    rename: Option<BTreeMap<String, String>>,
    /// the transformation reorders expansions inside a @fold: the fold's output lists hold the same sub-rows in a
    /// different order (exactly like top-level rows, which are compared as a multiset), so list values are compared
    /// up to element order
    fold_lists_reordered: bool,
}

fn fresh_var(case: &WorldCase, hint: &str) -> String {
    let mut i = 0;
    loop {
        let n = format!("{hint}{i}");
        if !case.ann.var_types.contains_key(&n) {
            return n;
        }
        i += 1;
    }
}

fn root_component_paths(q: &Query) -> Vec<Vec<usize>> {
    edge_paths(q).into_iter().filter(|p| !inside_fold(q, p)).collect()
}

fn transform(c: &mut Choices<'_>, case: &WorldCase, rel: &str) -> Option<Transformed> {
    let q = &case.query;
    let schema = &case.world.schema;
    match rel {
        "add_count_filter" | "count_filter_and_negation_partition" => {
            // a fold of the root component whose source vertex is not inside an @optional scope
            let partition = rel == "count_filter_and_negation_partition";
            let paths: Vec<Vec<usize>> = edge_paths(q)
                .into_iter()
                .filter(|p| {
                    !p.is_empty()
                        && edge_at(q, p).fold
                        && !inside_fold(q, &p[..p.len() - 1])
                        && !anode_at(&case.ann.root, q, p).source_in_optional
                })
                .collect();
            if paths.is_empty() {
                return None;
            }
            let path = paths[c.below(paths.len())].clone();
            // half of the time every observer is removed from that fold first (in the base query as well), so that the
            // fold is eligible for the engine's early termination
            let mut base = q.clone();
            let stripped = c.chance(128) && !defines_tags(edge_at(q, &path));
            if stripped {
                strip_outputs(edge_at_mut(&mut base, &path));
                base.root.body.push(Sel::Prop(PropSel { name: "__typename".into(), outputs: vec![Some("obs_root".into())], ..Default::default() }));
            }
            let pairs: [(Op, Op); 8] = [
                (Op::Eq, Op::Ne),
                (Op::Ne, Op::Eq),
                (Op::OneOf, Op::NotOneOf),
                (Op::NotOneOf, Op::OneOf),
                (Op::Lt, Op::Ge),
                (Op::Ge, Op::Lt),
                (Op::Le, Op::Gt),
                (Op::Gt, Op::Le),
            ];
            let (op, neg) = pairs[c.below(pairs.len())];
            let name = fresh_var(case, "m");
            let mut args = case.args.clone();
            let scalar = |c: &mut Choices<'_>| Value::Int { v: c.below(6) as i128 - 1, unsigned: c.chance(100) };
            let operand = if matches!(op, Op::OneOf | Op::NotOneOf) {
                let n = c.below(4);
                Value::List((0..n).map(|_| scalar(c)).collect())
            } else {
                scalar(c)
            };
            args.insert(name.clone(), operand);
            let mk = |op: Op| {
                let mut q2 = base.clone();
                let e = edge_at_mut(&mut q2, &path);
                let cs = e.count.get_or_insert_with(CountSel::default);
                cs.filters.push(Filter { op, arg: Some(Arg::Var(name.clone())) });
                q2
            };
            let queries = if partition { vec![(mk(op), args.clone()), (mk(neg), args)] } else { vec![(mk(op), args)] };
            Some(Transformed { base: if stripped { Some(base) } else { None }, queries, rename: None, fold_lists_reordered: false })
        }
        "add_filter" | "filter_and_negation_partition" => {
            let partition = rel == "filter_and_negation_partition";
            let paths: Vec<Vec<usize>> = root_component_paths(q)
                .into_iter()
                .filter(|p| !partition || !anode_at(&case.ann.root, q, p).in_optional)
                .collect();
            if paths.is_empty() {
                return None;
            }
            let path = paths[c.below(paths.len())].clone();
            let node = anode_at(&case.ann.root, q, &path);
            let props = schema.properties(&node.ty);
            let string_props: Vec<&crate::schema_ast::FieldDef> = props.iter().copied().filter(|p| !p.ty.is_list() && p.ty.base == "String").collect();
            let (pname, pt) = if props.is_empty() || c.chance(30) {
                ("__typename".to_string(), crate::values::Ty::named("String", false))
            } else if !string_props.is_empty() && c.chance(90) {
                let p = string_props[c.below(string_props.len())];
                (p.name.clone(), p.ty.clone())
            } else {
                let p = props[c.below(props.len())];
                (p.name.clone(), p.ty.clone())
            };
            let mut ops: Vec<Op> = vec![Op::Eq, Op::Ne, Op::OneOf, Op::NotOneOf];
            if pt.nullable() {
                ops.extend([Op::IsNull, Op::IsNotNull]);
            }
            if !pt.is_list() && matches!(pt.base.as_str(), "Int" | "Float" | "String") && !partition {
                ops.extend([Op::Lt, Op::Le, Op::Gt, Op::Ge]);
            }
            if pt.is_list() {
                ops.extend([Op::Contains, Op::NotContains]);
            }
            if !pt.is_list() && pt.base == "String" {
                ops.extend([Op::HasPrefix, Op::HasSuffix, Op::HasSubstring, Op::NotHasPrefix]);
            }
            if !pt.is_list() && pt.base == "String" {
                ops.extend([Op::Regex, Op::NotRegex]);
            }
            let mut op = ops[c.below(ops.len())];
            // regex / not_regex on string properties are favoured: tagged patterns are compiled at run time, per value
            if !pt.is_list() && pt.base == "String" && c.chance(90) {
                op = if c.chance(128) { Op::Regex } else { Op::NotRegex };
            }
            let mut args = case.args.clone();
            // a tag of the same component that is already defined at this vertex can serve as the operand
            let tag_operand: Option<String> = if !op.is_unary() && c.chance(if matches!(op, Op::Regex | Op::NotRegex) { 200 } else { 110 }) {
                let qcfg = crate::query_ast::QueryGenConfig::default();
                let cands: Vec<String> = case
                    .ann
                    .tags
                    .iter()
                    .filter(|(_, def)| match def {
                        crate::query_ast::TagDef::Prop { vid, .. } => {
                            *vid <= node.vid && {
                                let mut in_root = false;
                                case.ann.root.walk(&mut |n| {
                                    // (for the partition relation the tagged vertex must not be inside an @optional
                                    // scope: a tag from a missing optional makes a filter and its negation both pass)
                                    if n.vid == *vid && n.path.len() == 1 && (!partition || !n.in_optional) {
                                        in_root = true;
                                    }
                                });
                                in_root
                            }
                        }
                        _ => false,
                    })
                    .filter(|(_, def)| crate::query_ast::tag_compatible(op, &pt, &def.ty(), &qcfg))
                    .map(|(n, _)| n.clone())
                    .collect();
                if cands.is_empty() { None } else { Some(cands[c.below(cands.len())].clone()) }
            } else {
                None
            };
            let arg = if op.is_unary() {
                None
            } else if let Some(t) = tag_operand {
                Some(Arg::Tag(t))
            } else if matches!(op, Op::Regex | Op::NotRegex) {
                let name = fresh_var(case, "m");
                args.insert(name.clone(), Value::str(["a", "^a", "b$", "a.c", "."][c.below(5)]));
                Some(Arg::Var(name))
            } else {
                let vt = infer_var_type(op, &pt)?;
                let name = fresh_var(case, "m");
                args.insert(name.clone(), gen_value_of_type(c, &vt, 0));
                Some(Arg::Var(name))
            };
            let mk = |op: Op| {
                let mut q2 = q.clone();
                edge_at_mut(&mut q2, &path).body.push(Sel::Prop(PropSel {
                    name: pname.clone(),
                    filters: vec![Filter { op, arg: arg.clone() }],
                    ..Default::default()
                }));
                q2
            };
            if partition {
                let neg = op.negation()?;
                Some(Transformed { base: None, queries: vec![(mk(op), args.clone()), (mk(neg), args)], rename: None, fold_lists_reordered: false })
            } else {
                Some(Transformed { base: None, queries: vec![(mk(op), args)], rename: None, fold_lists_reordered: false })
            }
        }
        "raise_recurse_depth" => {
            let paths: Vec<Vec<usize>> =
                root_component_paths(q).into_iter().filter(|p| !p.is_empty() && edge_at(q, p).recurse.is_some()).collect();
            if paths.is_empty() {
                return None;
            }
            let path = paths[c.below(paths.len())].clone();
            let mut q2 = q.clone();
            let e = edge_at_mut(&mut q2, &path);
            e.recurse = Some(e.recurse.unwrap() + 1 + c.below(2) as u32);
            Some(Transformed { base: None, queries: vec![(q2, case.args.clone())], rename: None, fold_lists_reordered: false })
        }
        "add_optional" => {
            let paths: Vec<Vec<usize>> = root_component_paths(q)
                .into_iter()
                .filter(|p| {
                    if p.is_empty() {
                        return false;
                    }
                    let e = edge_at(q, p);
                    !e.optional && !e.fold && e.recurse.is_none()
                })
                .collect();
            if paths.is_empty() {
                return None;
            }
            let path = paths[c.below(paths.len())].clone();
            let mut q2 = q.clone();
            edge_at_mut(&mut q2, &path).optional = true;
            Some(Transformed { base: None, queries: vec![(q2, case.args.clone())], rename: None, fold_lists_reordered: false })
        }
        "parameter_as_filter" => {
            let mut cands = vec![];
            for p in edge_paths(q) {
                if p.is_empty() {
                    continue;
                }
                let e = edge_at(q, &p);
                if e.optional || e.recurse.is_some() {
                    continue;
                }
                if let Some(ParamSem::FilterEq { param, prop }) = schema.sem.get(&e.name) {
                    let node = anode_at(&case.ann.root, q, &p);
                    let fd = schema.field(&node.from_type, &e.name)?;
                    let pd = fd.params.iter().find(|x| &x.name == param)?;
                    let v = node.params.get(param)?.clone();
                    if !v.is_null() && pd.ty.nullable() && prop_type(schema, &node.ty, prop).is_some() {
                        cands.push((p, param.clone(), prop.clone(), v));
                    }
                }
            }
            if cands.is_empty() {
                return None;
            }
            let (path, param, prop, v) = cands[c.below(cands.len())].clone();
            let mut q2 = q.clone();
            let mut args = case.args.clone();
            let name = fresh_var(case, "m");
            {
                let e = edge_at_mut(&mut q2, &path);
                e.args.retain(|(k, _)| k != &param);
                e.args.push((param, Value::Null));
                e.body.push(Sel::Prop(PropSel { name: prop, filters: vec![Filter { op: Op::Eq, arg: Some(Arg::Var(name.clone())) }], ..Default::default() }));
            }
            args.insert(name, v);
            Some(Transformed { base: None, queries: vec![(q2, args)], rename: None, fold_lists_reordered: false })
        }
        "eq_as_one_of" => {
            // every (path, body index, filter index) of an `=` / `!=` filter with a variable that is used only once
            let mut cands = vec![];
            for p in edge_paths(q) {
                let e = edge_at(q, &p);
                for (bi, s) in e.body.iter().enumerate() {
                    if let Sel::Prop(ps) = s {
                        for (fi, f) in ps.filters.iter().enumerate() {
                            if let (Op::Eq | Op::Ne, Some(Arg::Var(v))) = (f.op, &f.arg) {
                                if case.ann.var_uses.iter().filter(|(n, ..)| n == v).count() == 1 {
                                    cands.push((p.clone(), bi, fi, v.clone()));
                                }
                            }
                        }
                    }
                }
            }
            if cands.is_empty() {
                return None;
            }
            let (path, bi, fi, var) = cands[c.below(cands.len())].clone();
            let mut q2 = q.clone();
            let mut args = case.args.clone();
            let name = fresh_var(case, "m");
            if let Sel::Prop(ps) = &mut edge_at_mut(&mut q2, &path).body[bi] {
                let f = &mut ps.filters[fi];
                f.op = if f.op == Op::Eq { Op::OneOf } else { Op::NotOneOf };
                f.arg = Some(Arg::Var(name.clone()));
            }
            let v = args.remove(&var)?;
            args.insert(name, Value::List(vec![v]));
            Some(Transformed { base: None, queries: vec![(q2, args)], rename: None, fold_lists_reordered: false })
        }
        "rename_outputs_and_tags" => {
            let mut q2 = q.clone();
            let mut rename: BTreeMap<String, String> = BTreeMap::new();
            let mut tag_rename: BTreeMap<String, String> = BTreeMap::new();
            // explicit names get fresh names; the mapping for implicit names is the identity
            fn go(e: &mut EdgeSel, rename: &mut BTreeMap<String, String>, tags: &mut BTreeMap<String, String>, n: &mut usize) {
                if let Some(cs) = e.count.as_mut() {
                    for o in cs.outputs.iter_mut().flatten() {
                        *n += 1;
                        let new = format!("renamed_out_{n}");
                        rename.insert(o.clone(), new.clone());
                        *o = new;
                    }
                    for t in cs.tags.iter_mut() {
                        *n += 1;
                        let new = format!("renamed_tag_{n}");
                        tags.insert(t.clone(), new.clone());
                        *t = new;
                    }
                }
                for s in e.body.iter_mut() {
                    match s {
                        Sel::Prop(p) => {
                            for o in p.outputs.iter_mut().flatten() {
                                *n += 1;
                                let new = format!("renamed_out_{n}");
                                rename.insert(o.clone(), new.clone());
                                *o = new;
                            }
                            for t in p.tags.iter_mut().flatten() {
                                *n += 1;
                                let new = format!("renamed_tag_{n}");
                                tags.insert(t.clone(), new.clone());
                                *t = new;
                            }
                        }
                        Sel::Edge(ch) => go(ch, rename, tags, n),
                    }
                }
            }
            let mut n = 0;
            go(&mut q2.root, &mut rename, &mut tag_rename, &mut n);
            fn fix_uses(e: &mut EdgeSel, tags: &BTreeMap<String, String>) {
                let fix = |f: &mut Filter| {
                    if let Some(Arg::Tag(t)) = &mut f.arg {
                        if let Some(new) = tags.get(t) {
                            *t = new.clone();
                        }
                    }
                };
                if let Some(cs) = e.count.as_mut() {
                    cs.filters.iter_mut().for_each(fix);
                }
                for s in e.body.iter_mut() {
                    match s {
                        Sel::Prop(p) => p.filters.iter_mut().for_each(fix),
                        Sel::Edge(ch) => fix_uses(ch, tags),
                    }
                }
            }
            fix_uses(&mut q2.root, &tag_rename);
            if rename.is_empty() && tag_rename.is_empty() {
                return None;
            }
            Some(Transformed { base: None, queries: vec![(q2, case.args.clone())], rename: Some(rename), fold_lists_reordered: false })
        }
        "permute_siblings" => {
            let paths = edge_paths(q);
            let path = paths[c.below(paths.len())].clone();
            let mut q2 = q.clone();
            let e = edge_at_mut(&mut q2, &path);
            if e.body.len() < 2 {
                return None;
            }
            let i = c.below(e.body.len());
            let j = c.below(e.body.len());
            if i == j {
                return None;
            }
            e.body.swap(i, j);
            // inside a fold (the edge itself or any ancestor is folded) the order of the swapped selections is the order in
            // which the fold's sub-rows are produced
            let mut inside_fold = q.root.fold;
            {
                let mut cur = &q.root;
                for k in &path {
                    if let Sel::Edge(ch) = &cur.body[*k] {
                        cur = ch;
                        inside_fold |= cur.fold;
                    }
                }
            }
            // implicit output names do not depend on sibling order, so the identity mapping applies
            Some(Transformed { base: None, queries: vec![(q2, case.args.clone())], rename: Some(BTreeMap::new()), fold_lists_reordered: inside_fold })
        }
        _ => None,
    }
}

pub fn c23_case(bytes: &[u8], stats: &mut Stats, counting: bool, cfg: &GenConfig) -> Verdict {
    let mut c = Choices::new(bytes);
    let rel = RELATIONS[c.below(RELATIONS.len())];
    let mut tbytes = [0u8; 24];
    for b in tbytes.iter_mut() {
        *b = c.byte();
    }
    let fold_cfg;
    let cfg = if rel.contains("count_filter") {
        let mut f = cfg.clone();
        f.query.fold_bias = true;
        fold_cfg = f;
        &fold_cfg
    } else {
        cfg
    };
    let case = decode_world_case(&mut c, cfg);
    if let Err(v) = compile_case(&case) {
        return match v {
            Verdict::Fail { .. } => Verdict::Discard("frontend-panic(C10)".into()),
            other => other,
        };
    }
    let mut tc = Choices::new(&tbytes);
    let Some(t) = transform(&mut tc, &case, rel) else {
        return Verdict::Discard(format!("{rel}:not-applicable"));
    };
    // the transformed query must still be something the harness considers valid
    for (q2, _) in &t.queries {
        if !annotate(&case.world.schema, q2).errors.is_empty() {
            return Verdict::Discard(format!("{rel}:transformed-query-invalid"));
        }
    }
    let base_query = t.base.as_ref().unwrap_or(&case.query);
    let base = match run_query(&case, base_query, &case.args) {
        Ok(r) => r,
        Err(e) => return Verdict::Discard(format!("{rel}:base:{e}")),
    };
    let mut outs = vec![];
    for (q2, a2) in &t.queries {
        match run_query(&case, q2, a2) {
            Ok(r) => outs.push(r),
            Err(e) => return Verdict::Discard(format!("{rel}:transformed:{e}")),
        }
    }
    let mb = multiset(&base.rows);
    let m0 = multiset(&outs[0].rows);
    let (holds, nontrivial) = match rel {
        "add_filter" | "add_count_filter" => (sub_multiset(&m0, &mb), m0 != mb),
        "raise_recurse_depth" | "add_optional" => (sub_multiset(&mb, &m0), m0 != mb),
        "parameter_as_filter" | "eq_as_one_of" => (m0 == mb, !mb.is_empty()),
        "filter_and_negation_partition" | "count_filter_and_negation_partition" => {
            let mut sum = m0.clone();
            for (k, n) in multiset(&outs[1].rows) {
                *sum.entry(k).or_insert(0) += n;
            }
            (sum == mb, !mb.is_empty())
        }
        "rename_outputs_and_tags" | "permute_siblings" => {
            let map = t.rename.clone().unwrap_or_default();
            let renamed: Vec<Row> = base
                .rows
                .iter()
                .map(|r| r.iter().map(|(k, v)| (map.get(k).cloned().unwrap_or_else(|| k.clone()), v.clone())).collect())
                .collect();
            if t.fold_lists_reordered {
                let a: Vec<Row> = renamed.iter().map(sort_lists_in_row).collect();
                let b: Vec<Row> = outs[0].rows.iter().map(sort_lists_in_row).collect();
                if counting {
                    stats.label("permute_siblings:inside_fold(lists compared up to order)");
                }
                (multiset(&a) == multiset(&b), !mb.is_empty())
            } else {
                (multiset(&renamed) == m0, !mb.is_empty())
            }
        }
        _ => (true, false),
    };
    if counting {
        stats.label(&format!("relation:{rel}"));
        if nontrivial {
            stats.label(&format!("nontrivial:{rel}"));
            let mut key = case.key();
            key.extend(rel.as_bytes());
            key.extend(tbytes);
            if stats.nontrivial(&key) {
                stats.sample(|| json!({"relation": rel, "query": case.query_text, "transformed": t.queries.iter().map(|(q, _)| q.render()).collect::<Vec<_>>()}));
            }
        }
    }
    if holds {
        Verdict::Pass
    } else {
        Verdict::Fail {
            sig: format!("c23:{rel}"),
            msg: format!(
                "relation `{rel}` does not hold: base {} rows, transformed {:?} rows\nbase rows (first 3): {:?}\ntransformed rows (first 3): {:?}\nquery:\n{}\ntransformed:\n{}\nargs: {:?}\ntransformed args: {:?}",
                base.rows.len(),
                outs.iter().map(|o| o.rows.len()).collect::<Vec<_>>(),
                base.rows.iter().take(3).map(canon_row).collect::<Vec<_>>(),
                outs.iter().map(|o| o.rows.iter().take(3).map(canon_row).collect::<Vec<_>>()).collect::<Vec<_>>(),
                base_query.render(),
                t.queries.iter().map(|(q, _)| q.render()).collect::<Vec<_>>().join("\n--\n"),
                case.args,
                t.queries[0].1
            ),
        }
    }
}

pub fn c23(ctx: &CheckCtx) -> i32 {
    let cfg = default_gen_config();
    if ctx.replay.is_some() {
        return replay_with(ctx, &|_s, b| c23_case(b, &mut Stats::default(), false, &cfg));
    }
    let mut report = Report::new(
        ctx,
        "choice stream -> (relation, position, world); engine vs engine on the same data: (1) adding a filter in the root \
         component yields a sub-multiset; (2) raising a @recurse depth outside folds yields a super-multiset; (3) adding \
         @optional to a plain root-component edge yields a super-multiset; (4) a filter_eq-parameterised edge without \
         @optional/@recurse equals the same edge with a null parameter plus an explicit `=` filter; (5) `=`/`!=` equal \
         one_of/not_one_of with a one-element list; (6) a filter and its documented negation on a vertex outside optional \
         scopes partition the rows; (7) renaming explicit outputs and tags changes only names; (8) swapping sibling selections \
         changes nothing (kept only if both compile); (9) adding a filter on the count of a root-component @fold yields a sub-multiset and (10) \
         such a count filter and its complement (= / !=, one_of / not_one_of, < / >=, <= / >) partition the rows -- for (9) and \
         (10) the world is fold-biased and half of the time every output is first removed from that fold (in the base query too), \
         which makes it eligible for early termination. Non-trivial: results differ (1-3) or are non-empty (4-8); distinct by \
         (case, relation, position).",
    );
    let cases = ctx.cases(400_000, 4_000_000);
    let res = search(ctx, "c23", cases, WORLD_MIN_LEN + 25, WORLD_MAX_LEN + 25, |b, s, k| c23_case(b, s, k, &cfg));
    report.absorb(res, &|b| {
        let rel = RELATIONS[Choices::new(b).below(RELATIONS.len())];
        let mut rcfg = cfg.clone();
        rcfg.query.fold_bias = rel.contains("count_filter");
        json!({"relation": rel, "case": render_world_case(&b[25.min(b.len())..], &rcfg)})
    });
    report.finish()
}
