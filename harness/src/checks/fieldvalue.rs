//! C08 (FieldValue equality / order laws) and the value generator shared by C16 / C18.

use std::{cmp::Ordering, sync::Arc};

use serde_json::json;
use trustfall_core::ir::FieldValue;

use crate::checks::{replay_with, Report};
use crate::choice::Choices;
use crate::engine;
use crate::runner::{search, CheckCtx, Stats, Verdict};

pub const INT_BOUNDARY: [i128; 15] = [
    i64::MIN as i128,
    i64::MIN as i128 + 1,
    -2,
    -1,
    0,
    1,
    2,
    i32::MAX as i128,
    i64::MAX as i128 - 1,
    i64::MAX as i128,
    i64::MAX as i128 + 1,
    i64::MAX as i128 + 2,
    u64::MAX as i128 - 1,
    u64::MAX as i128,
    u32::MAX as i128 + 1,
];

pub const FLOATS: [f64; 12] = [
    0.0,
    -0.0,
    1.0,
    -1.5,
    2.5,
    1e300,
    -1e300,
    f64::MIN_POSITIVE,
    5e-324,
    f64::MAX,
    0.1,
    -3.0533902101061807e-61,
];

pub const STRINGS: [&str; 8] = ["", "a", "ab", "abc", "b", "ä", "a.c", "\u{10348}"];

/// both encodings of `v` where representable
pub fn int_encodings(v: i128) -> Vec<FieldValue> {
    let mut out = vec![];
    if v >= i64::MIN as i128 && v <= i64::MAX as i128 {
        out.push(FieldValue::Int64(v as i64));
    }
    if v >= 0 && v <= u64::MAX as i128 {
        out.push(FieldValue::Uint64(v as u64));
    }
    out
}

pub fn gen_int_fv(c: &mut Choices<'_>) -> FieldValue {
    let v = if c.chance(40) {
        // arbitrary 64-bit pattern
        let raw = c.u64();
        if c.chance(128) { raw as i64 as i128 } else { raw as i128 }
    } else {
        INT_BOUNDARY[c.below(INT_BOUNDARY.len())]
    };
    let enc = int_encodings(v);
    enc[c.below(enc.len())].clone()
}

pub fn gen_float(c: &mut Choices<'_>) -> f64 {
    if c.chance(90) {
        let f = f64::from_bits(c.u64());
        if f.is_finite() { f } else { 1.5 }
    } else {
        FLOATS[c.below(FLOATS.len())]
    }
}

#[derive(Clone, Copy)]
pub struct FvGen {
    pub enums: bool,
    pub max_depth: usize,
}

pub fn gen_fv(c: &mut Choices<'_>, g: FvGen, depth: usize) -> FieldValue {
    let kinds = if depth < g.max_depth { 8 } else { 6 };
    match c.below(kinds) {
        0 => FieldValue::Null,
        1 => FieldValue::Boolean(c.chance(128)),
        2 => gen_int_fv(c),
        3 => FieldValue::Float64(gen_float(c)),
        4 => FieldValue::String(Arc::from(STRINGS[c.below(STRINGS.len())])),
        5 => {
            if g.enums {
                FieldValue::Enum(Arc::from(["RED", "GREEN", "a"][c.below(3)]))
            } else {
                gen_int_fv(c)
            }
        }
        _ => {
            let n = c.below(4);
            // lists are often homogeneous and share prefixes
            let homogeneous = c.chance(160);
            let first = gen_fv(c, g, depth + 1);
            let mut items = vec![];
            for i in 0..n {
                if i == 0 {
                    items.push(first.clone());
                } else if homogeneous {
                    items.push(match &first {
                        FieldValue::Int64(_) | FieldValue::Uint64(_) => gen_int_fv(c),
                        FieldValue::Float64(_) => FieldValue::Float64(gen_float(c)),
                        FieldValue::String(_) => FieldValue::String(Arc::from(STRINGS[c.below(STRINGS.len())])),
                        other => other.clone(),
                    });
                } else {
                    items.push(gen_fv(c, g, depth + 1));
                }
            }
            FieldValue::List(items.into())
        }
    }
}

fn as_i128(v: &FieldValue) -> Option<i128> {
    match v {
        FieldValue::Int64(i) => Some(*i as i128),
        FieldValue::Uint64(u) => Some(*u as i128),
        _ => None,
    }
}

fn lex_cmp(a: &[FieldValue], b: &[FieldValue]) -> Option<Ordering> {
    for (x, y) in a.iter().zip(b.iter()) {
        match x.partial_cmp(y)? {
            Ordering::Equal => {}
            o => return Some(o),
        }
    }
    Some(a.len().cmp(&b.len()))
}

fn law_violation(a: &FieldValue, b: &FieldValue, c: &FieldValue) -> Option<(&'static str, String)> {
    // equality
    if a != a {
        return Some(("eq-not-reflexive", format!("{a:?}")));
    }
    if (a == b) != (b == a) {
        return Some(("eq-not-symmetric", format!("{a:?} {b:?}")));
    }
    if a == b && b == c && a != c {
        return Some(("eq-not-transitive", format!("{a:?} {b:?} {c:?}")));
    }
    // order is total
    let ab = a.partial_cmp(b);
    let ba = b.partial_cmp(a);
    let bc = b.partial_cmp(c);
    let ac = a.partial_cmp(c);
    let (Some(ab), Some(ba), Some(bc), Some(ac)) = (ab, ba, bc, ac) else {
        return Some(("order-not-total", format!("{a:?} {b:?} {c:?}")));
    };
    if a.partial_cmp(a) != Some(Ordering::Equal) {
        return Some(("order-not-reflexive", format!("{a:?}")));
    }
    if ab != ba.reverse() {
        return Some(("order-not-antisymmetric", format!("{a:?} {b:?}: {ab:?} vs {ba:?}")));
    }
    if ab != Ordering::Greater && bc != Ordering::Greater && ac == Ordering::Greater {
        return Some(("order-not-transitive", format!("{a:?} <= {b:?} <= {c:?} but a > c")));
    }
    if ab != Ordering::Less && bc != Ordering::Less && ac == Ordering::Less {
        return Some(("order-not-transitive", format!("{a:?} >= {b:?} >= {c:?} but a < c")));
    }
    if (a == b) != (ab == Ordering::Equal) {
        return Some(("order-disagrees-with-equality", format!("{a:?} {b:?}: == is {} but cmp is {ab:?}", a == b)));
    }
    if let (Some(x), Some(y)) = (as_i128(a), as_i128(b)) {
        if ab != x.cmp(&y) || (a == b) != (x == y) {
            return Some(("integers-not-numeric", format!("{a:?} {b:?}")));
        }
    }
    if let (FieldValue::List(x), FieldValue::List(y)) = (a, b) {
        if Some(ab) != lex_cmp(x, y) {
            return Some(("list-order-not-lexicographic", format!("{a:?} {b:?}")));
        }
        let elementwise_eq = x.len() == y.len() && x.iter().zip(y.iter()).all(|(p, q)| p == q);
        if (a == b) != elementwise_eq {
            return Some(("list-equality-not-elementwise", format!("{a:?} {b:?}")));
        }
    }
    None
}

fn related(a: &FieldValue, b: &FieldValue) -> bool {
    match (a, b) {
        (FieldValue::Int64(_), FieldValue::Uint64(_)) | (FieldValue::Uint64(_), FieldValue::Int64(_)) => true,
        (FieldValue::List(x), FieldValue::List(y)) => !x.is_empty() && !y.is_empty() && x[0] == y[0],
        _ => false,
    }
}

pub fn c08_case(bytes: &[u8], stats: &mut Stats, counting: bool) -> Verdict {
    let mut c = Choices::new(bytes);
    let g = FvGen { enums: true, max_depth: 3 };
    let a = gen_fv(&mut c, g, 0);
    // b and c are often derived from a so that equal / adjacent values actually occur
    let derive = |c: &mut Choices<'_>, from: &FieldValue| -> FieldValue {
        match c.below(5) {
            0 => from.clone(),
            1 => match from {
                FieldValue::Int64(i) if *i >= 0 => FieldValue::Uint64(*i as u64),
                FieldValue::Uint64(u) if *u <= i64::MAX as u64 => FieldValue::Int64(*u as i64),
                FieldValue::Int64(i) => FieldValue::Int64(i.wrapping_add(1)),
                FieldValue::Uint64(u) => FieldValue::Uint64(u.wrapping_sub(1)),
                FieldValue::List(l) => {
                    let mut v = l.to_vec();
                    if c.chance(128) {
                        v.push(gen_fv(c, g, 2));
                    } else {
                        v.pop();
                    }
                    FieldValue::List(v.into())
                }
                other => other.clone(),
            },
            _ => gen_fv(c, g, 0),
        }
    };
    let b = derive(&mut c, &a);
    let cc = derive(&mut c, &b);
    if counting {
        if related(&a, &b) || related(&b, &cc) || related(&a, &cc) {
            if stats.nontrivial(format!("{a:?}{b:?}{cc:?}").as_bytes()) {
                stats.sample(|| json!([format!("{a:?}"), format!("{b:?}"), format!("{cc:?}")]));
            }
        }
        stats.label(match &a {
            FieldValue::Null => "a:null",
            FieldValue::Int64(_) => "a:int64",
            FieldValue::Uint64(_) => "a:uint64",
            FieldValue::Float64(_) => "a:float",
            FieldValue::String(_) => "a:string",
            FieldValue::Boolean(_) => "a:bool",
            FieldValue::Enum(_) => "a:enum",
            FieldValue::List(_) => "a:list",
            _ => "a:other",
        });
    }
    let r = engine::catch(|| {
        for (x, y, z) in [(&a, &b, &cc), (&b, &cc, &a), (&cc, &a, &b), (&b, &a, &cc)] {
            if let Some(v) = law_violation(x, y, z) {
                return Some(v);
            }
        }
        None
    });
    match r {
        Ok(None) => Verdict::Pass,
        Ok(Some((k, m))) => Verdict::Fail { sig: format!("c08:{k}"), msg: m },
        Err(p) => Verdict::Fail { sig: format!("c08:panic|{}", p.file()), msg: format!("{} on {a:?} {b:?} {cc:?}", p.render()) },
    }
}

pub fn c08(ctx: &CheckCtx) -> i32 {
    if ctx.replay.is_some() {
        return replay_with(ctx, &|_s, b| c08_case(b, &mut Stats::default(), false));
    }
    let mut report = Report::new(
        ctx,
        "choice stream -> triple of field values (null, booleans, integers at every signed/unsigned boundary in both \
         encodings plus random 64-bit patterns, finite floats incl. +-0 and subnormals, strings, enums, nested lists up to \
         depth 3; second and third value often derived from the first: same number in the other encoding, neighbouring \
         number, list with a shared prefix). Laws: == reflexive/symmetric/transitive; partial_cmp total, antisymmetric, \
         transitive, consistent with ==; integers numeric (i128 model); lists lexicographic and elementwise-equal. \
         Non-trivial: triple containing a cross-encoding integer pair or a list pair sharing its first element; distinct by triple.",
    );
    report.assume("floats are finite (the engine asserts this)");
    // exhaustive boundary grid first
    let mut grid: Vec<FieldValue> = vec![];
    for v in INT_BOUNDARY {
        grid.extend(int_encodings(v));
    }
    let mut n = 0u64;
    'outer: for a in &grid {
        for b in &grid {
            for c in &grid {
                n += 1;
                if let Some((k, m)) = law_violation(a, b, c) {
                    report.violation("c08-grid", &format!("c08:{k}"), &m, json!({"a": format!("{a:?}"), "b": format!("{b:?}"), "c": format!("{c:?}")}));
                    break 'outer;
                }
            }
        }
    }
    report.stats.evaluations += n;
    report.stats.bump("exhaustive_integer_boundary_triples", n);
    let cases = ctx.cases(15_000_000, 200_000_000);
    let res = search(ctx, "c08", cases, 8, 160, c08_case);
    report.absorb(res, &|b| {
        let mut c = Choices::new(b);
        json!({"first_value": format!("{:?}", gen_fv(&mut c, FvGen { enums: true, max_depth: 3 }, 0))})
    });
    report.finish()
}
