//! C12 (argument validation), C14 (determinism), C15 (trace record / replay).

use std::{
    cell::RefCell,
    collections::{BTreeMap, BTreeSet},
    rc::Rc,
    sync::Arc,
};

use proptest::{
    collection::vec,
    prelude::any,
    strategy::{Strategy, ValueTree},
    test_runner::{Config, RngSeed, TestRunner},
};
use serde_json::json;
use trustfall_core::{
    interpreter::{
        error::QueryArgumentsError,
        execution::interpret_ir,
        replay::assert_interpreted_results,
        trace::{tap_results, AdapterTap, Trace},
        InterpretedQuery,
    },
    ir::FieldValue,
};

use crate::adapter::{GraphAdapter, GV};
use crate::checks::adapters::run_recorded;
use crate::checks::frontend::{decode_hostile, HostileCase};
use crate::checks::world::{default_gen_config, render_world_case, ROW_LIMIT, WORLD_MAX_LEN, WORLD_MIN_LEN};
use crate::checks::{replay_with, Report};
use crate::choice::{fnv64, Choices};
use crate::data::{gen_scalar, gen_value_of_type};
use crate::engine::{self, CompileOutcome, ExecOutcome};
use crate::runner::{search, CheckCtx, Stats, Verdict};
use crate::values::{Ty, Value};
use crate::worldcase::{compile_case, decode_world_case, first_line, GenConfig};

// ---------------------------------------------------------------------------------------------
// C12

#[derive(Default, Debug, PartialEq, Eq)]
struct ArgVerdict {
    missing: BTreeSet<String>,
    unused: BTreeSet<String>,
    ill_typed: BTreeSet<String>,
}

impl ArgVerdict {
    fn accept(&self) -> bool {
        self.missing.is_empty() && self.unused.is_empty() && self.ill_typed.is_empty()
    }
}

fn flatten(e: &QueryArgumentsError, out: &mut ArgVerdict) {
    match e {
        QueryArgumentsError::MissingArguments(v) => out.missing.extend(v.iter().cloned()),
        QueryArgumentsError::UnusedArguments(v) => out.unused.extend(v.iter().cloned()),
        QueryArgumentsError::ArgumentTypeError(n, _, _) => {
            out.ill_typed.insert(n.clone());
        }
        QueryArgumentsError::MultipleErrors(v) => {
            for x in &v.0 {
                flatten(x, out);
            }
        }
    }
}

/// a value that is (usually) *not* valid for `ty`, in a way that depends on nullability / list depth / kind
fn gen_edit_value(c: &mut Choices<'_>, ty: &Ty) -> (Value, &'static str) {
    match c.below(8) {
        0 => (Value::Null, "null"),
        1 => {
            // right base kind, one list level too many
            let t = Ty::list_of(&Ty { base: ty.base.clone(), nulls: ty.nulls.iter().map(|_| true).collect() }, true);
            (gen_nonnull(c, &t), "one_list_level_too_many")
        }
        2 => {
            // right base kind, one list level too few
            match ty.elem() {
                Some(e) => (gen_nonnull(c, &e), "one_list_level_too_few"),
                None => (Value::List(vec![]), "list_for_scalar"),
            }
        }
        3 => {
            // list containing a null element
            if ty.is_list() {
                let mut v = gen_nonnull(c, ty);
                if let Value::List(items) = &mut v {
                    items.push(Value::Null);
                }
                (v, "list_with_null_element")
            } else {
                (Value::Null, "null")
            }
        }
        4 => {
            // another base kind at the same shape
            let other = ["Int", "Float", "String", "Boolean"]
                .iter()
                .filter(|b| **b != ty.base)
                .nth(c.below(3))
                .copied()
                .unwrap_or("Int");
            let t = Ty { base: other.to_string(), nulls: ty.nulls.clone() };
            (gen_nonnull(c, &t), "other_base_kind")
        }
        5 => {
            // mixed-kind list
            if ty.is_list() {
                (Value::List(vec![gen_scalar(c, &ty.base), Value::Bool(true), Value::str("x")]), "mixed_kind_list")
            } else {
                (Value::List(vec![gen_scalar(c, &ty.base)]), "list_for_scalar")
            }
        }
        6 => {
            // integers in both encodings inside one list / extreme ints: must stay valid for Int types
            if ty.base == "Int" && ty.is_list() && ty.depth() == 1 {
                (
                    Value::List(vec![Value::int(1), Value::uint(u64::MAX as i128), Value::int(i64::MIN as i128)]),
                    "mixed_int_encodings",
                )
            } else {
                (gen_value_of_type(c, ty, 0), "valid_again")
            }
        }
        _ => (gen_value_of_type(c, ty, 0), "valid_again"),
    }
}

fn gen_nonnull(c: &mut Choices<'_>, ty: &Ty) -> Value {
    for _ in 0..4 {
        let v = gen_value_of_type(c, ty, 0);
        if !v.is_null() {
            return v;
        }
    }
    if ty.is_list() { Value::List(vec![]) } else { gen_scalar(c, &ty.base) }
}

pub fn c12_case(bytes: &[u8], stats: &mut Stats, counting: bool, cfg: &GenConfig) -> Verdict {
    let mut c = Choices::new(bytes);
    // edits are decoded first (fixed budget) so a big world cannot starve them
    let mut edit_bytes = [0u8; 40];
    for b in edit_bytes.iter_mut() {
        *b = c.byte();
    }
    let case = decode_world_case(&mut c, cfg);
    let compiled = match compile_case(&case) {
        Ok(x) => x,
        Err(Verdict::Fail { .. }) => return Verdict::Discard("frontend-panic(C10)".into()),
        Err(v) => return v,
    };
    // inferred types (harness) vs recorded types (engine)
    let recorded: BTreeMap<String, Ty> = compiled
        .iq
        .ir_query
        .variables
        .iter()
        .map(|(k, t)| (k.to_string(), Ty::parse(&t.to_string()).expect("HARNESS: type parse")))
        .collect();
    if recorded != case.ann.var_types {
        return Verdict::Fail {
            sig: "c12:inferred-variable-types-differ".into(),
            msg: format!(
                "variable types implied by the documented rule: {:?}\nrecorded by the engine: {:?}\nquery:\n{}",
                case.ann.var_types.iter().map(|(k, t)| (k, t.render())).collect::<Vec<_>>(),
                recorded.iter().map(|(k, t)| (k, t.render())).collect::<Vec<_>>(),
                case.query_text
            ),
        };
    }
    // build the edited map
    let mut e = Choices::new(&edit_bytes);
    let mut args = case.args.clone();
    let mut edits: Vec<String> = vec![];
    let names: Vec<String> = args.keys().cloned().collect();
    let n_edits = e.below(4);
    for _ in 0..n_edits {
        match e.below(5) {
            0 => {
                if !names.is_empty() {
                    let n = &names[e.below(names.len())];
                    args.remove(n);
                    edits.push("drop_variable".into());
                }
            }
            1 => {
                let n = ["zz_unknown", "v0", "V1", ""][e.below(4)].to_string();
                if !case.ann.var_types.contains_key(&n) {
                    args.insert(n, Value::int(1));
                    edits.push("add_unknown_name".into());
                }
            }
            _ => {
                if !names.is_empty() {
                    let n = &names[e.below(names.len())];
                    let ty = &case.ann.var_types[n];
                    let (v, kind) = gen_edit_value(&mut e, ty);
                    args.insert(n.clone(), v);
                    edits.push(kind.to_string());
                }
            }
        }
    }
    // expected verdict by the harness model
    let mut expected = ArgVerdict::default();
    for (n, ty) in &case.ann.var_types {
        match args.get(n) {
            None => {
                expected.missing.insert(n.clone());
            }
            Some(v) => {
                if !ty.valid(v) {
                    expected.ill_typed.insert(n.clone());
                }
            }
        }
    }
    for n in args.keys() {
        if !case.ann.var_types.contains_key(n) {
            expected.unused.insert(n.clone());
        }
    }
    let engine_args = engine::args_to_engine(&args);
    let iq = compiled.iq.clone();
    let got = engine::catch(|| InterpretedQuery::from_query_and_arguments(iq, engine_args));
    if counting {
        for ed in &edits {
            stats.label(&format!("edit:{ed}"));
        }
        stats.label(if expected.accept() { "expected:accept" } else { "expected:reject" });
        let subtle = edits.iter().any(|k| {
            matches!(k.as_str(), "null" | "one_list_level_too_many" | "one_list_level_too_few" | "list_with_null_element" | "mixed_int_encodings")
        });
        if subtle {
            let mut key = case.query_text.clone().into_bytes();
            key.extend(format!("{args:?}").as_bytes());
            if stats.nontrivial(&key) {
                stats.sample(|| {
                    json!({"query": case.query_text, "variable_types": case.ann.var_types.iter().map(|(k, t)| (k.clone(), t.render())).collect::<BTreeMap<_, _>>(),
                           "args": args.iter().map(|(k, v)| (k.clone(), v.to_json())).collect::<BTreeMap<_, _>>(), "edits": edits, "expected_accept": expected.accept()})
                });
            }
        }
    }
    let describe = || {
        format!(
            "query:\n{}\nvariable types: {:?}\nargs: {:?}\nedits: {:?}",
            case.query_text,
            case.ann.var_types.iter().map(|(k, t)| (k, t.render())).collect::<Vec<_>>(),
            args,
            edits
        )
    };
    match got {
        Err(p) => Verdict::Fail {
            sig: format!("c12:argument-validation-panicked|{}|{}", p.file(), first_line(&p.message)),
            msg: format!("{}\n{}", p.render(), describe()),
        },
        Ok(Ok(_)) => {
            if expected.accept() {
                Verdict::Pass
            } else {
                Verdict::Fail {
                    sig: "c12:accepted-an-invalid-argument-map".into(),
                    msg: format!("engine accepted, expected rejection {expected:?}\n{}", describe()),
                }
            }
        }
        Ok(Err(e)) => {
            if expected.accept() {
                return Verdict::Fail {
                    sig: "c12:rejected-a-valid-argument-map".into(),
                    msg: format!("engine rejected with {e:?}, expected acceptance\n{}", describe()),
                };
            }
            let mut got = ArgVerdict::default();
            flatten(&e, &mut got);
            if got == expected {
                Verdict::Pass
            } else {
                Verdict::Fail {
                    sig: "c12:error-names-wrong-variables".into(),
                    msg: format!("engine error names {got:?}, expected {expected:?}\n{}", describe()),
                }
            }
        }
    }
}

pub fn c12(ctx: &CheckCtx) -> i32 {
    let cfg = default_gen_config();
    if ctx.replay.is_some() {
        return replay_with(ctx, &|_s, bytes| c12_case(bytes, &mut Stats::default(), false, &cfg));
    }
    let mut report = Report::new(
        ctx,
        "choice stream -> (argument edits, world); the correct argument map is edited (drop variables, add unknown names, \
         replace values by null / wrong list depth / list with a null element / another base kind / mixed-kind list / mixed \
         integer encodings); expected verdict from the harness type model over the variable types the documented inference \
         rule gives (also compared with the types the engine records); on rejection the variables named by the error, per \
         kind, must equal the expected offending sets. Non-trivial: an edit whose verdict depends on nullability or list depth; \
         distinct by (query, argument map).",
    );
    report.assume("enum-valued arguments are not generated (documented unsupported)");
    let cases = ctx.cases(500_000, 5_000_000);
    let res = search(ctx, "c12", cases, WORLD_MIN_LEN + 40, WORLD_MAX_LEN + 40, |b, s, counting| c12_case(b, s, counting, &cfg));
    report.absorb(res, &|b| render_world_case(&b[40.min(b.len())..], &cfg));
    report.finish()
}

// ---------------------------------------------------------------------------------------------
// C15

/// contexts / vertices pulled through the adapter in the direct run above which a case is not traced
const C15_MAX_PULLS: u64 = 6_000;
const C15_SCHED_LEN: usize = 16;

pub fn c15_case(bytes: &[u8], stats: &mut Stats, counting: bool, cfg: &GenConfig) -> Verdict {
    c15_case_with(bytes, stats, counting, cfg, 0, false)
}

/// `sched_len > 0`: the traced adapter reads ahead / buffers according to a generated order-preserving schedule
/// (the C02 wrapper), so the trace holds several inputs before the first output of a resolver call.
///
/// `listed == false` excludes by construction the two listed findings about replaying such traces: the traced adapter then
/// never pulls input at resolver-construction time and never polls an exhausted input again. `listed == true` allows both
/// (the shapes of the repository's own batching test adapter) and names them in the failure signature.
pub fn c15_case_with(bytes: &[u8], stats: &mut Stats, counting: bool, cfg: &GenConfig, sched_len: usize, listed: bool) -> Verdict {
    let mut c = Choices::new(bytes);
    let prefix_choice = c.below(256);
    let mut schedule = crate::checks::adapters::decode_schedule(&mut c, sched_len);
    if !listed {
        for plan in schedule.iter_mut() {
            plan.input.eager = false;
            plan.output.eager = false;
            plan.neighbors.eager = false;
        }
    }
    let case = decode_world_case(&mut c, cfg);
    let compiled = match compile_case(&case) {
        Ok(x) => x,
        Err(Verdict::Fail { .. }) => return Verdict::Discard("frontend-panic(C10)".into()),
        Err(v) => return v,
    };
    let args = engine::args_to_engine(&case.args);
    // the direct run also measures the work: a trace keeps a full context per operation, so a query that pulls very
    // many contexts (while producing few rows) would make the traced run take gigabytes
    let (counting_adapter, counters) = crate::wrappers::CountingAdapter::new(GraphAdapter::new(case.world.clone()));
    #[allow(clippy::arc_with_non_send_sync)]
    let direct = engine::execute(Arc::new(counting_adapter), compiled.iq.clone(), args.clone(), ROW_LIMIT);
    let direct_rows = match direct {
        ExecOutcome::Budget => return Verdict::Discard("too-much-work".into()),
        ExecOutcome::Rows(r) => r,
        ExecOutcome::ArgError(_) => return Verdict::Discard("args-rejected(C12)".into()),
        ExecOutcome::Panic(..) => return Verdict::Discard("engine-panic(C09)".into()),
    };
    let (starts, pulls) = counters.snapshot();
    if starts + pulls > C15_MAX_PULLS {
        return Verdict::Discard("too-much-work-for-a-trace".into());
    }
    if direct_rows.len() > 300 {
        // traces hold a full context per operation: keep them small
        return Verdict::Discard("too-many-rows-for-a-trace".into());
    }
    // traced run
    let string_args: BTreeMap<String, FieldValue> = case.args.iter().map(|(k, v)| (k.clone(), v.to_field_value())).collect();
    let iq = compiled.iq.clone();
    let world = case.world.clone();
    // every third case records a second time through the *same* shared tracer (`finish()` documents that it leaves a
    // fresh trace of the same query and arguments behind): the second trace must equal the first
    let record_again = prefix_choice % 3 == 0;
    let traced = engine::catch(move || {
        let trace = Trace::new(iq.ir_query.clone(), string_args);
        let tracer = Rc::new(RefCell::new(trace));
        let make = |world, schedule| {
            if listed {
                crate::wrappers::BatchingAdapter::new(GraphAdapter::new(world), schedule)
            } else {
                crate::wrappers::BatchingAdapter::new_polite(GraphAdapter::new(world), schedule)
            }
        };
        let (batching, bstats) = make(world.clone(), schedule.clone());
        #[allow(clippy::arc_with_non_send_sync)]
        let tap = Arc::new(AdapterTap::new(batching, tracer.clone()));
        let rows: Vec<_> = {
            let iter = interpret_ir(tap.clone(), iq.clone(), args.clone()).expect("args accepted before");
            tap_results(tap.clone(), iter).collect()
        };
        let tap = Arc::try_unwrap(tap).ok().expect("HARNESS: adapter tap still shared");
        let first = tap.finish();
        let again = if record_again {
            let (batching, _) = make(world, schedule);
            #[allow(clippy::arc_with_non_send_sync)]
            let tap = Arc::new(AdapterTap::new(batching, tracer.clone()));
            let rows: Vec<_> = {
                let iter = interpret_ir(tap.clone(), iq, args).expect("args accepted before");
                tap_results(tap.clone(), iter).collect()
            };
            let tap = Arc::try_unwrap(tap).ok().expect("HARNESS: adapter tap still shared");
            Some((rows, tap.finish()))
        } else {
            None
        };
        (rows, first, again, (bstats.read_ahead_events.get(), bstats.eager_fills.get(), bstats.polls_after_exhaustion.get()))
    });
    let (traced_rows, trace, again, (read_ahead_events, eager_fills, polls_after_exhaustion)) = match traced {
        Ok(x) => x,
        Err(p) if p.is_budget() => return Verdict::Discard("too-much-work".into()),
        Err(p) => {
            return Verdict::Fail {
                sig: format!("c15:traced-run-panicked|{}|{}", p.file(), first_line(&p.message)),
                msg: format!("{}\nquery:\n{}", p.render(), case.query_text),
            }
        }
    };
    if counting {
        for l in case.features.labels() {
            stats.label(l);
        }
        stats.bump("trace_ops", trace.ops.len() as u64);
        if sched_len > 0 {
            stats.label(if read_ahead_events > 0 { "traced_adapter_read_ahead" } else { "traced_adapter_schedule_without_read_ahead" });
        }
        let mut key = case.key();
        if sched_len > 0 {
            key.extend(format!("sched{read_ahead_events}").as_bytes());
        }
        if (case.features.fold > 0 || case.features.recurse > 0)
            && trace.ops.len() >= 20
            && (sched_len == 0 || read_ahead_events > 0)
            && stats.nontrivial(&key)
        {
            stats.sample(|| json!({"case": case.short_json(), "trace_ops": trace.ops.len(), "rows": traced_rows.len()}));
        }
    }
    if traced_rows != direct_rows && sched_len > 0 {
        // rows that change under read-ahead are C02's subject (the direct run used the plain adapter)
        return Verdict::Discard("rows-differ-under-read-ahead(C02)".into());
    }
    if traced_rows != direct_rows {
        return Verdict::Fail {
            sig: "c15:rows-differ-through-tracing-adapter".into(),
            msg: format!("{} rows through AdapterTap vs {} direct\nquery:\n{}", traced_rows.len(), direct_rows.len(), case.query_text),
        };
    }
    if let Some((rows2, trace2nd)) = &again {
        if counting {
            stats.label("recorded_twice_through_one_tracer");
        }
        if rows2 != &traced_rows || trace2nd != &trace {
            let what = if rows2 != &traced_rows {
                "rows"
            } else if trace2nd.arguments != trace.arguments {
                "arguments"
            } else if trace2nd.ops != trace.ops {
                "ops"
            } else {
                "query"
            };
            return Verdict::Fail {
                sig: format!("c15:second-recording-through-the-same-tracer-differs|{what}"),
                msg: format!(
                    "recording the same execution again through the tracer that `finish()` left behind gave a different trace ({what}): \
                     {} ops / {} arguments vs {} ops / {} arguments\nquery:\n{}\nargs: {:?}",
                    trace2nd.ops.len(), trace2nd.arguments.len(), trace.ops.len(), trace.arguments.len(), case.query_text, case.args
                ),
            };
        }
    }
    // serialise, deserialise, replay without the data source
    let text = match ron::to_string(&trace) {
        Ok(t) => t,
        Err(e) => {
            return Verdict::Fail {
                sig: "c15:trace-does-not-serialize".into(),
                msg: format!("{e}\nquery:\n{}", case.query_text),
            }
        }
    };
    let trace2: Trace<GV> = match ron::from_str(&text) {
        Ok(t) => t,
        Err(e) => {
            return Verdict::Fail {
                sig: "c15:serialized-trace-does-not-deserialize".into(),
                msg: format!("{e}\nquery:\n{}\nargs: {:?}", case.query_text, case.args),
            }
        }
    };
    let mut adapter_manners = vec![];
    if eager_fills > 0 {
        adapter_manners.push("eager_pull_at_resolver_construction");
    }
    if polls_after_exhaustion > 0 {
        adapter_manners.push("input_polled_again_after_exhaustion");
    }
    let ctx_sig = if adapter_manners.is_empty() { String::new() } else { format!("|traced-adapter:{}", adapter_manners.join(",")) };
    let full = engine::catch(|| assert_interpreted_results(&trace2, &direct_rows, true));
    if let Err(p) = full {
        return Verdict::Fail {
            sig: format!("c15:replay-diverged|{}{ctx_sig}", first_line(&p.message).chars().take(60).collect::<String>()),
            msg: format!("replaying the deserialized trace failed: {}\nquery:\n{}\nargs: {:?}", p.render(), case.query_text, case.args),
        };
    }
    if !direct_rows.is_empty() {
        let k = (prefix_choice * (direct_rows.len() + 1)) >> 8;
        let prefix = engine::catch(|| assert_interpreted_results(&trace2, &direct_rows[..k], false));
        if let Err(p) = prefix {
            return Verdict::Fail {
                sig: format!("c15:prefix-replay-diverged{ctx_sig}"),
                msg: format!("replaying a {k}-row prefix failed: {}\nquery:\n{}", p.render(), case.query_text),
            };
        }
    }
    Verdict::Pass
}

pub fn c15(ctx: &CheckCtx) -> i32 {
    let cfg = default_gen_config();
    if ctx.replay.is_some() {
        return replay_with(ctx, &|sub, bytes| {
            if sub == "c15-read-ahead" || sub == "c15-read-ahead-listed" {
                c15_case_with(bytes, &mut Stats::default(), false, &cfg, C15_SCHED_LEN, sub == "c15-read-ahead-listed")
            } else {
                c15_case(bytes, &mut Stats::default(), false, &cfg)
            }
        });
    }
    let mut report = Report::new(
        ctx,
        "choice stream -> world; rows(direct) must equal rows through AdapterTap + tap_results; the recorded Trace is \
         serialised to RON, deserialised, and replayed with assert_interpreted_results (TraceReaderAdapter has no access to the \
         dataset), completely and for a generated row prefix. Non-trivial: trace with a fold or recursion and >= 20 operations; \
         distinct by case hash. \
         A second search traces adapters that read ahead / buffer by a generated order-preserving schedule (non-trivial there: \
         the schedule actually made a resolver pull >= 2 contexts before its first output).",
    );
    report.assume("traces are serialised with RON (the repo's own format); JSON cannot represent tuple map keys");
    let cases = ctx.cases(80_000, 800_000);
    let res = search(ctx, "c15", cases, WORLD_MIN_LEN, WORLD_MAX_LEN, |b, s, counting| c15_case(b, s, counting, &cfg));
    report.absorb(res, &|b| render_world_case(&b[1.min(b.len())..], &cfg));
    // the same property over adapters that read ahead (order-preserving schedules of the C02 wrapper): the trace then holds
    // several inputs of one resolver call before its first output, which the replay side has to queue
    let cases = ctx.cases(50_000, 500_000);
    let res = search(ctx, "c15-read-ahead", cases, WORLD_MIN_LEN + 100, WORLD_MAX_LEN + 300, |b, s, counting| {
        c15_case_with(b, s, counting, &cfg, C15_SCHED_LEN, false)
    });
    report.absorb(res, &|b| json!({"note": "choice stream = prefix byte, read-ahead schedule, world", "choices_len": b.len()}));
    // the two listed findings (adapters that pull at construction time / poll an exhausted input again): smaller search that
    // includes them and tolerates exactly their signatures; it reaches both within a few cases, so it doubles as their probe
    let cases = ctx.cases(4_000, 100_000);
    let res = search(ctx, "c15-read-ahead-listed", cases, WORLD_MIN_LEN + 100, WORLD_MAX_LEN + 300, |b, s, counting| {
        let mut scratch = Stats::default();
        let v = c15_case_with(b, &mut scratch, counting, &cfg, C15_SCHED_LEN, true);
        if counting {
            s.bump("cases_in_search_including_listed_findings", 1);
        }
        v
    });
    report.absorb(res, &|b| json!({"note": "choice stream = prefix byte, read-ahead schedule, world", "choices_len": b.len()}));
    report.assume("the read-ahead search excludes by construction adapters that pull input at resolver-construction time or poll an exhausted input again (two listed findings about the trace reader); a second search includes them and tolerates exactly their signatures");
    report.finish()
}

// ---------------------------------------------------------------------------------------------
// C14

/// One digest per case over (compile result, rows, adapter call trace). Pure function of `bytes`.
pub fn c14_digest(bytes: &[u8], cfg: &GenConfig) -> (u64, bool, String) {
    let mut c = Choices::new(bytes);
    let kind = c.below(5);
    // kind 4: worlds biased towards regex filters with tag operands (patterns compiled at run time, per value; the data
    // pool contains an invalid pattern): the place where a cache would make results depend on what ran before
    let regex_cfg;
    let cfg = if kind == 4 {
        let mut r = cfg.clone();
        r.query.regex_bias = true;
        regex_cfg = r;
        &regex_cfg
    } else {
        cfg
    };
    if kind == 0 {
        // possibly-invalid documents: error determinism
        let case = decode_hostile(&mut c);
        let (sdl, text) = match &case {
            HostileCase::Generated { sdl, text, .. } => (sdl.clone(), text.clone()),
            HostileCase::Spliced { schema_name, text, .. } => {
                (crate::checks::frontend::repo_corpus().schemas[schema_name].0.clone(), text.clone())
            }
        };
        let mut acc = String::new();
        let mut interesting = false;
        if let Ok(Ok(schema)) = engine::parse_schema(&sdl) {
            match engine::compile(&schema, &text) {
                CompileOutcome::Ok(iq) => acc.push_str(&format!("{iq:?}")),
                CompileOutcome::Err(e) => {
                    interesting = e.contains("MultipleErrors");
                    if e.contains("InvalidGraphQL(MultipleOperations") {
                        // listed finding KF-C14-parser-multiple-operations: excluded here by construction
                        // (the third-party parser reports an arbitrary named operation); probed separately
                        acc.push_str("EXCLUDED:parser-multiple-operations-error");
                    } else {
                        acc.push_str(&e)
                    }
                }
                CompileOutcome::Panic(p) => acc.push_str(&p.message),
            }
        }
        return (fnv64(acc.as_bytes()), interesting, text);
    }
    if kind == 1 {
        // mutated schemas: error determinism of schema validation
        let (sdl, _labels) = crate::checks::schema::decode_mutated_schema(&mut c);
        let acc = match engine::parse_schema(&sdl) {
            Ok(Ok(_)) => "ok".to_string(),
            Ok(Err(e)) => e,
            Err(p) => format!("panic:{}", p.message),
        };
        let interesting = acc.contains("MultipleErrors");
        return (fnv64(acc.as_bytes()), interesting, sdl);
    }
    let case = decode_world_case(&mut c, cfg);
    let mut acc = String::new();
    let interesting = case.world.schema.types.len() >= 5 && case.features.vertices >= 3;
    match compile_case(&case) {
        Ok(compiled) => {
            acc.push_str(&ron::to_string(&compiled.iq.ir_query).unwrap_or_default());
            acc.push_str(&format!("{:?}", compiled.iq.outputs));
            let rec = run_recorded(&case, compiled.iq.clone());
            match &rec.outcome {
                ExecOutcome::Budget => acc.push_str("work budget exhausted"),
                ExecOutcome::Rows(r) => acc.push_str(&format!("{r:?}")),
                ExecOutcome::ArgError(e) => acc.push_str(e),
                ExecOutcome::Panic(p, n) => acc.push_str(&format!("panic {} after {n}", p.message)),
            }
            acc.push_str(&format!("{:?}", rec.log));
        }
        Err(v) => acc.push_str(&format!("{v:?}")),
    }
    (fnv64(acc.as_bytes()), interesting, case.query_text)
}

/// Deterministic case list from proptest's own generator (same list in every process for a given seed).
pub fn c14_case_list(seed: u64, n: usize) -> Vec<Vec<u8>> {
    let config = Config { rng_seed: RngSeed::Fixed(seed ^ 0xC14), failure_persistence: None, ..Config::default() };
    let mut runner = TestRunner::new(config);
    let strategy = vec(any::<u8>(), WORLD_MIN_LEN..=WORLD_MAX_LEN);
    (0..n).map(|_| strategy.new_tree(&mut runner).expect("generate").current()).collect()
}

/// `tfcheck C14-DIGEST <n>`: prints one digest line per case (used by the cross-process comparison)
pub fn c14_emit(ctx: &CheckCtx, n: usize) -> i32 {
    let cfg = default_gen_config();
    for (i, bytes) in c14_case_list(ctx.seed, n).iter().enumerate() {
        let (d, _, _) = c14_digest(bytes, &cfg);
        println!("{i} {d:016x}");
    }
    0
}

pub fn c14_inprocess_case(bytes: &[u8], stats: &mut Stats, counting: bool, cfg: &GenConfig) -> Verdict {
    // every call re-parses the schema into a fresh `Schema` (fresh hash seeds) and recompiles
    let (d0, interesting, text) = c14_digest(bytes, cfg);
    if counting && interesting && stats.nontrivial(text.as_bytes()) {
        stats.sample(|| json!({"input": text}));
    }
    for i in 0..7 {
        let (d, _, _) = c14_digest(bytes, cfg);
        if d != d0 {
            return Verdict::Fail {
                sig: "c14:in-process-repetition-differs".into(),
                msg: format!("repetition {i} gave digest {d:016x}, first run {d0:016x}\ninput:\n{text}"),
            };
        }
    }
    c14_alternating_schemas(bytes, stats, counting, cfg)
}

/// "The same query against the same schema" must not depend on which other schema was compiled against in between: the
/// query is compiled against schema A and against a variant B (every non-list `Int` property turned into `Float`, which
/// keeps the schema valid and usually changes the IR or the error), first with both alive, then alternately with each
/// schema parsed into the *same* local variable and dropped again, so that A and B take turns at one address.
fn c14_alternating_schemas(bytes: &[u8], stats: &mut Stats, counting: bool, cfg: &GenConfig) -> Verdict {
    let mut c = Choices::new(bytes);
    if c.below(5) < 2 {
        return Verdict::Pass; // only world cases have a schema AST to vary
    }
    let case = decode_world_case(&mut c, cfg);
    let mut doc_b = case.world.schema.clone();
    for t in doc_b.types.iter_mut() {
        for f in t.fields.iter_mut() {
            if f.ty.base == "Int" && !f.ty.is_list() && f.params.is_empty() {
                f.ty.base = "Float".into();
            }
        }
    }
    let texts = [case.sdl.clone(), doc_b.render()];
    let compile_text = |sdl: &str| -> String {
        // (one local: every call parses into the same stack slot)
        let schema = match engine::parse_schema(sdl) {
            Ok(Ok(s)) => s,
            other => return format!("schema: {other:?}"),
        };
        match engine::compile(&schema, &case.query_text) {
            CompileOutcome::Ok(iq) => ron::to_string(&iq.ir_query).unwrap_or_default(),
            CompileOutcome::Err(e) => format!("err: {e}"),
            CompileOutcome::Panic(p) => format!("panic: {}", p.message),
        }
    };
    // references: both schemas alive at the same time (different addresses)
    let (ref_a, ref_b) = {
        let a = engine::parse_schema(&texts[0]);
        let b = engine::parse_schema(&texts[1]);
        let of = |s: &Result<Result<trustfall_core::schema::Schema, String>, engine::PanicInfo>| match s {
            Ok(Ok(schema)) => match engine::compile(schema, &case.query_text) {
                CompileOutcome::Ok(iq) => ron::to_string(&iq.ir_query).unwrap_or_default(),
                CompileOutcome::Err(e) => format!("err: {e}"),
                CompileOutcome::Panic(p) => format!("panic: {}", p.message),
            },
            other => format!("schema: {other:?}"),
        };
        (of(&a), of(&b))
    };
    if ref_b.starts_with("schema:") {
        return Verdict::HarnessBug(format!("the Int->Float variant of a generated schema is rejected: {ref_b}\n{}", texts[1]));
    }
    if counting && ref_a != ref_b {
        stats.label("alternating_schemas:variant_changes_the_compile_result");
    }
    for round in 0..3 {
        for (which, want) in [(0usize, &ref_a), (1usize, &ref_b)] {
            let got = compile_text(&texts[which]);
            if &got != want {
                return Verdict::Fail {
                    sig: "c14:compile-result-depends-on-schemas-compiled-before".into(),
                    msg: format!(
                        "round {round}: compiling against schema {} after the other schema had been compiled against and dropped gave a different result than compiling against it on its own\nquery:\n{}\nschema A:\n{}\nschema B:\n{}",
                        ["A", "B"][which],
                        case.query_text,
                        texts[0],
                        texts[1]
                    ),
                };
            }
        }
    }
    Verdict::Pass
}

pub fn c14(ctx: &CheckCtx) -> i32 {
    let cfg = default_gen_config();
    if ctx.replay.is_some() {
        return replay_with(ctx, &|_s, bytes| c14_inprocess_case(bytes, &mut Stats::default(), false, &cfg));
    }
    let mut report = Report::new(
        ctx,
        "choice stream -> one of {world (valid query), hostile query text (error results), mutated schema (schema errors)}; \
         digest over (RON of the IR or Debug of the error, rows, recorded adapter call trace). In-process: 8 repetitions, each \
         re-parsing the schema into a fresh Schema (fresh hash seeds), then the query compiled alternately against the schema and an \
         Int->Float variant of it, each parsed into the same local and dropped (the result must equal the one obtained with both \
         schemas alive). One fifth of the worlds is biased towards regex filters with tag operands. Cross-process: the same case list is digested by 3 (5) \
         separately spawned processes and compared line by line. Non-trivial: error with several sub-errors, or schema with >= 5 \
         types and a query touching >= 3 vertices; distinct by input text.",
    );
    let cases = ctx.cases(40_000, 600_000);
    let res = search(ctx, "c14", cases, WORLD_MIN_LEN, WORLD_MAX_LEN, |b, s, counting| c14_inprocess_case(b, s, counting, &cfg));
    report.absorb(res, &|b| json!({"input": c14_digest(b, &cfg).2}));
    // dedicated probe for the listed finding excluded above
    {
        let corpus = crate::checks::frontend::repo_corpus();
        if let Some((_, schema)) = corpus.schemas.get("numbers") {
            let doc = "query A { Zero { value @output } } query B { Zero { value @output } } query C { Zero { value @output } } mutation { Zero { value } }";
            let mut seen = BTreeSet::new();
            for _ in 0..64 {
                if let CompileOutcome::Err(e) = engine::compile(schema, doc) {
                    seen.insert(e);
                }
            }
            report.assume("documents that mix several named operations with an anonymous one are excluded from the digests (listed finding in the third-party parser's error) and probed by one fixed document");
            report.probe("KF-C14-parser-multiple-operations", seen.len() > 1);
        }
    }
    // cross-process part
    let n = ctx.cases(8_000, 150_000) as usize;
    let procs = if matches!(ctx.tier, crate::runner::Tier::Thorough) { 5 } else { 3 };
    let exe = std::env::current_exe().expect("current exe");
    let mut outputs: Vec<String> = vec![];
    let mut children = vec![];
    for _ in 0..procs {
        let child = std::process::Command::new(&exe)
            .arg("C14-DIGEST")
            .arg(n.to_string())
            .env("VERIF_SEED", ctx.seed.to_string())
            .stdout(std::process::Stdio::piped())
            .stderr(std::process::Stdio::null())
            .spawn();
        children.push(child);
    }
    for ch in children {
        match ch.and_then(|c| c.wait_with_output()) {
            Ok(o) if o.status.success() => outputs.push(String::from_utf8_lossy(&o.stdout).to_string()),
            Ok(o) => report.harness_bugs.push(format!("digest process exited with {:?}", o.status)),
            Err(e) => report.harness_bugs.push(format!("cannot spawn digest process: {e}")),
        }
    }
    if outputs.len() == procs {
        let first: Vec<&str> = outputs[0].lines().collect();
        report.stats.bump("cross_process_cases", first.len() as u64);
        report.stats.bump("cross_process_processes", procs as u64);
        report.stats.evaluations += first.len() as u64;
        'outer: for (pi, o) in outputs.iter().enumerate().skip(1) {
            let lines: Vec<&str> = o.lines().collect();
            if lines.len() != first.len() {
                report.harness_bugs.push(format!("process {pi} printed {} lines, expected {}", lines.len(), first.len()));
                break;
            }
            for (i, (a, b)) in first.iter().zip(lines.iter()).enumerate() {
                if a != b {
                    let list = c14_case_list(ctx.seed, n);
                    let (_, _, text) = c14_digest(&list[i], &cfg);
                    let path = crate::runner::write_replay(&ctx.property, "c14", &list[i], "c14:cross-process-digest-differs", &format!("case {i}: `{a}` vs `{b}`"), json!({"input": text}));
                    report.violations.push(("c14:cross-process-digest-differs".into(), format!("case {i}: process 0 printed `{a}`, process {pi} printed `{b}`\ninput:\n{text}"), path));
                    break 'outer;
                }
            }
        }
    }
    report.finish()
}
