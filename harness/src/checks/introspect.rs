//! C20 (schema introspection reports exactly the schema's contents) and
//! C25 (the adapter invariant checker catches every documented violation).

use std::{
    collections::{BTreeMap, BTreeSet},
    sync::Arc,
};

use serde_json::json;
use trustfall_core::{
    interpreter::{
        helpers::check_adapter_invariants, Adapter, AsVertex, ContextIterator, ContextOutcomeIterator, ResolveEdgeInfo,
        ResolveInfo, VertexIterator,
    },
    ir::{EdgeParameters, FieldValue},
    schema::{Schema, SchemaAdapter},
};

use crate::checks::{replay_with, Report};
use crate::choice::Choices;
use crate::engine::{self, CompileOutcome, ExecOutcome};
use crate::runner::{search, CheckCtx, Stats, Verdict};
use crate::schema_ast::{gen_schema, SchemaDoc, SchemaGenConfig};
use crate::values::Value;
use crate::worldcase::first_line;

fn meta_schema() -> &'static Schema {
    // per thread, see frontend::repo_corpus
    thread_local! {
        static S: &'static Schema = Box::leak(Box::new(Schema::parse(SchemaAdapter::schema_text()).expect("HARNESS: meta schema does not parse")));
    }
    S.with(|s| *s)
}

type Fact = BTreeMap<String, String>;

fn fv_text(v: &FieldValue) -> String {
    match v {
        FieldValue::Null => "<null>".into(),
        FieldValue::String(s) => s.to_string(),
        FieldValue::Boolean(b) => b.to_string(),
        FieldValue::List(l) => {
            let mut items: Vec<String> = l.iter().map(fv_text).collect();
            items.sort();
            format!("[{}]", items.join("|"))
        }
        other => format!("{other:?}"),
    }
}

fn run_meta(subject: &Schema, query: &str) -> Result<BTreeSet<Vec<(String, String)>>, String> {
    run_meta_with(subject, query, BTreeMap::new())
}

fn run_meta_with(subject: &Schema, query: &str, args: BTreeMap<Arc<str>, FieldValue>) -> Result<BTreeSet<Vec<(String, String)>>, String> {
    let iq = match engine::compile(meta_schema(), query) {
        CompileOutcome::Ok(iq) => iq,
        CompileOutcome::Err(e) => return Err(format!("HARNESS: fixed meta query rejected: {e}")),
        CompileOutcome::Panic(p) => return Err(format!("HARNESS: fixed meta query panicked: {}", p.render())),
    };
    // the adapter borrows the schema; run inside a scope that owns both
    let rows = engine::catch(|| {
        let adapter = Arc::new(SchemaAdapter::new(subject));
        let iter = trustfall_core::interpreter::execution::interpret_ir(adapter, iq, Arc::new(args)).expect("HARNESS: arguments of a fixed meta query rejected");
        iter.collect::<Vec<_>>()
    });
    match rows {
        Ok(rows) => Ok(rows
            .iter()
            .map(|r| r.iter().map(|(k, v)| (k.to_string(), fv_text(v))).collect::<Vec<_>>())
            .collect()),
        Err(p) => Err(format!("PANIC:{}", p.render())),
    }
}

fn fact(pairs: &[(&str, String)]) -> Vec<(String, String)> {
    let mut v: Vec<(String, String)> = pairs.iter().map(|(k, x)| (k.to_string(), x.clone())).collect();
    v.sort();
    v
}

fn opt(s: &Option<String>) -> String {
    s.clone().unwrap_or_else(|| "<null>".into())
}

fn default_json(p: &crate::schema_ast::ParamDef) -> String {
    fn to_json(v: &Value) -> serde_json::Value {
        match v {
            Value::Null => serde_json::Value::Null,
            Value::Int { v, .. } => {
                if let Ok(i) = i64::try_from(*v) { json!(i) } else { json!(*v as u64) }
            }
            Value::Float(f) => json!(f),
            Value::Str(s) => json!(s),
            Value::Bool(b) => json!(b),
            Value::List(l) => serde_json::Value::Array(l.iter().map(to_json).collect()),
        }
    }
    match &p.default {
        Some(d) => to_json(d).to_string(),
        None => {
            if p.ty.nullable() { "null".into() } else { "<none>".into() }
        }
    }
}

/// normalise a reported default (a JSON string or null) for comparison
fn norm_default(reported: &str) -> String {
    if reported == "<null>" {
        // FieldValue::Null for the `default` property: no default at all
        return "<none>".into();
    }
    match serde_json::from_str::<serde_json::Value>(reported) {
        Ok(v) => v.to_string(),
        Err(_) => format!("<unparsable:{reported}>"),
    }
}

struct Expected {
    types: BTreeSet<Vec<(String, String)>>,
    props: BTreeSet<Vec<(String, String)>>,
    edges: BTreeSet<Vec<(String, String)>>,
    params: BTreeSet<Vec<(String, String)>>,
    inherit: BTreeSet<Vec<(String, String)>>,
    entry: BTreeSet<Vec<(String, String)>>,
}

fn expected(s: &SchemaDoc) -> Expected {
    let mut e = Expected {
        types: BTreeSet::new(),
        props: BTreeSet::new(),
        edges: BTreeSet::new(),
        params: BTreeSet::new(),
        inherit: BTreeSet::new(),
        entry: BTreeSet::new(),
    };
    for t in &s.types {
        if t.name == s.root {
            for f in &t.fields {
                let mut ps: Vec<String> = f.params.iter().map(|p| format!("{}:{}:{}", p.name, p.ty.render(), norm_json(&default_json(p)))).collect();
                ps.sort();
                e.entry.insert(fact(&[
                    ("name", f.name.clone()),
                    ("to_many", f.ty.is_list().to_string()),
                    ("at_least_one", (!f.ty.nulls[0]).to_string()),
                    ("target", f.ty.base.clone()),
                    ("params", format!("[{}]", ps.join("|"))),
                ]));
            }
            continue;
        }
        e.types.insert(fact(&[("name", t.name.clone()), ("is_interface", t.is_interface.to_string()), ("docs", opt(&t.doc))]));
        for f in &t.fields {
            if s.is_edge(f) {
                e.edges.insert(fact(&[
                    ("tname", t.name.clone()),
                    ("name", f.name.clone()),
                    ("to_many", f.ty.is_list().to_string()),
                    ("at_least_one", (!f.ty.nulls[0]).to_string()),
                    ("docs", opt(&f.doc)),
                    ("target", f.ty.base.clone()),
                ]));
                for p in &f.params {
                    e.params.insert(fact(&[
                        ("tname", t.name.clone()),
                        ("ename", f.name.clone()),
                        ("name", p.name.clone()),
                        ("type", p.ty.render()),
                        ("default", norm_json(&default_json(p))),
                    ]));
                }
            } else {
                e.props.insert(fact(&[("tname", t.name.clone()), ("name", f.name.clone()), ("type", f.ty.render()), ("docs", opt(&f.doc))]));
            }
        }
        let mut impls: Vec<String> = t.implements.clone();
        impls.sort();
        let mut subs: Vec<String> = s.strict_subtypes(&t.name);
        subs.sort();
        e.inherit.insert(fact(&[("tname", t.name.clone()), ("impl", format!("[{}]", impls.join("|"))), ("sub", format!("[{}]", subs.join("|")))]));
    }
    e
}

fn norm_json(s: &str) -> String {
    if s == "<none>" {
        return s.into();
    }
    serde_json::from_str::<serde_json::Value>(s).map(|v| v.to_string()).unwrap_or_else(|_| s.to_string())
}

const Q_TYPES: &str = "{ VertexType { name @output is_interface @output docs @output } }";
const Q_PROPS: &str = "{ VertexType { tname: name @output property { name @output type @output docs @output } } }";
const Q_EDGES: &str = "{ VertexType { tname: name @output edge { name @output to_many @output at_least_one @output docs @output target { target: name @output } } } }";
const Q_PARAMS: &str = "{ VertexType { tname: name @output edge { ename: name @output parameter { name @output type @output default @output } } } }";
const Q_INHERIT: &str = "{ VertexType { tname: name @output implements @fold { impl: name @output } implementer @fold { sub: name @output } } }";
const Q_ENTRY: &str = "{ Entrypoint { name @output to_many @output at_least_one @output target { target: name @output } parameter @fold { pname: name @output ptype: type @output pdefault: default @output } } }";
const Q_ENTRY2: &str = "{ Schema { entrypoint { name @output to_many @output at_least_one @output target { target: name @output } parameter @fold { pname: name @output ptype: type @output pdefault: default @output } } } }";
const Q_SCHEMA_TYPES: &str = "{ Schema { vertex_type { name @output is_interface @output docs @output } } }";
const Q_BY_NAME: &str = "{ VertexType { name @output @filter(op: \"one_of\", value: [\"$names\"]) is_interface @output } }";

fn strip_docs_ws(rows: BTreeSet<Vec<(String, String)>>) -> BTreeSet<Vec<(String, String)>> {
    rows.into_iter()
        .map(|r| r.into_iter().map(|(k, v)| if k == "docs" { (k, v.trim().to_string()) } else { (k, v) }).collect())
        .collect()
}

fn diff(name: &str, got: &BTreeSet<Vec<(String, String)>>, want: &BTreeSet<Vec<(String, String)>>) -> Option<(String, String)> {
    if got == want {
        return None;
    }
    let missing: Vec<_> = want.difference(got).take(3).collect();
    let extra: Vec<_> = got.difference(want).take(3).collect();
    Some((format!("c20:{name}-differ"), format!("{name}: missing from introspection {missing:?}; unexpected in introspection {extra:?}")))
}

pub fn c20_case(bytes: &[u8], stats: &mut Stats, counting: bool) -> Verdict {
    let mut c = Choices::new(bytes);
    let cfg = SchemaGenConfig { docs: true, ..SchemaGenConfig::default() };
    let doc = gen_schema(&mut c, &cfg);
    let sdl = doc.render();
    let schema = match engine::parse_schema(&sdl) {
        Ok(Ok(s)) => s,
        other => return Verdict::HarnessBug(format!("generated schema rejected: {other:?}\n{sdl}")),
    };
    let want = expected(&doc);
    if counting {
        let has_hierarchy = doc.types.iter().any(|t| !t.implements.is_empty());
        let has_default = doc.types.iter().any(|t| t.fields.iter().any(|f| f.params.iter().any(|p| matches!(&p.default, Some(v) if !v.is_null()))));
        if has_hierarchy {
            stats.label("interface_hierarchy");
        }
        if has_default {
            stats.label("non_null_parameter_default");
        }
        if has_hierarchy && has_default && stats.nontrivial(sdl.as_bytes()) {
            stats.sample(|| json!({"schema": sdl}));
        }
    }
    let fail = |k: String, m: String| Verdict::Fail { sig: k, msg: format!("{m}\nschema:\n{sdl}") };
    let run = |q: &str| -> Result<BTreeSet<Vec<(String, String)>>, Verdict> {
        match run_meta(&schema, q) {
            Ok(r) => Ok(strip_docs_ws(r)),
            Err(e) if e.starts_with("PANIC:") => Err(Verdict::Fail {
                sig: format!("c20:introspection-panicked|{}", first_line(&e).chars().take(80).collect::<String>()),
                msg: format!("{e}\nquery: {q}\nschema:\n{sdl}"),
            }),
            Err(e) => Err(Verdict::HarnessBug(e)),
        }
    };
    macro_rules! get {
        ($q:expr) => {
            match run($q) {
                Ok(r) => r,
                Err(v) => return v,
            }
        };
    }
    let types = get!(Q_TYPES);
    if let Some((k, m)) = diff("vertex-types", &types, &want.types) {
        return fail(k, m);
    }
    let types2 = get!(Q_SCHEMA_TYPES);
    if let Some((k, m)) = diff("vertex-types-via-Schema", &types2, &want.types) {
        return fail(k, m);
    }
    let props = get!(Q_PROPS);
    if let Some((k, m)) = diff("properties", &props, &want.props) {
        return fail(k, m);
    }
    let edges = get!(Q_EDGES);
    if let Some((k, m)) = diff("edges", &edges, &want.edges) {
        return fail(k, m);
    }
    let params: BTreeSet<Vec<(String, String)>> = get!(Q_PARAMS)
        .into_iter()
        .map(|r| r.into_iter().map(|(k, v)| if k == "default" { (k, norm_default(&v)) } else { (k, v) }).collect())
        .collect();
    if let Some((k, m)) = diff("edge-parameters", &params, &want.params) {
        return fail(k, m);
    }
    let inherit = get!(Q_INHERIT);
    if let Some((k, m)) = diff("implements-and-implementers", &inherit, &want.inherit) {
        return fail(k, m);
    }
    for (name, q) in [("entrypoints", Q_ENTRY), ("entrypoints-via-Schema", Q_ENTRY2)] {
        let rows = get!(q);
        // regroup the folded parameter lists into the same shape as the expectation
        let entry: BTreeSet<Vec<(String, String)>> = rows
            .into_iter()
            .map(|r| {
                let m: Fact = r.into_iter().collect();
                let split = |s: &str| -> Vec<String> {
                    let inner = s.trim_start_matches('[').trim_end_matches(']');
                    if inner.is_empty() { vec![] } else { inner.split('|').map(|x| x.to_string()).collect() }
                };
                let _ = split;
                fact(&[
                    ("name", m["name"].clone()),
                    ("to_many", m["to_many"].clone()),
                    ("at_least_one", m["at_least_one"].clone()),
                    ("target", m["target"].clone()),
                    ("params", "<checked-separately>".to_string()),
                ])
            })
            .collect();
        let want_entry: BTreeSet<Vec<(String, String)>> = want
            .entry
            .iter()
            .map(|r| r.iter().map(|(k, v)| if k == "params" { (k.clone(), "<checked-separately>".to_string()) } else { (k.clone(), v.clone()) }).collect())
            .collect();
        if let Some((k, m)) = diff(name, &entry, &want_entry) {
            return fail(k, m);
        }
    }
    // the two edges of the `Schema` vertex in one query, in both orders: the second edge is then resolved once per row
    // of the first (several contexts holding the same `Schema` vertex), and every one of them must see the full list
    for (name, q) in [
        ("schema-vertex-types-x-entrypoints", "{ Schema { vertex_type { tname: name @output } entrypoint { ename: name @output } } }"),
        ("schema-entrypoints-x-vertex-types", "{ Schema { entrypoint { ename: name @output } vertex_type { tname: name @output } } }"),
    ] {
        let got = get!(q);
        let mut want_x = BTreeSet::new();
        for t in &want.types {
            for e in &want.entry {
                let tn = t.iter().find(|(k, _)| k == "name").map(|(_, v)| v.clone()).unwrap_or_default();
                let en = e.iter().find(|(k, _)| k == "name").map(|(_, v)| v.clone()).unwrap_or_default();
                want_x.insert(fact(&[("tname", tn), ("ename", en)]));
            }
        }
        if let Some((k, m)) = diff(name, &got, &want_x) {
            return fail(k, m);
        }
    }
    // entrypoint parameters, unfolded
    {
        let rows = get!("{ Entrypoint { ename: name @output parameter { name @output type @output default @output } } }");
        let got: BTreeSet<Vec<(String, String)>> = rows
            .into_iter()
            .map(|r| r.into_iter().map(|(k, v)| if k == "default" { (k, norm_default(&v)) } else { (k, v) }).collect())
            .collect();
        let mut want_p = BTreeSet::new();
        if let Some(root) = doc.type_def(&doc.root) {
            for f in &root.fields {
                for p in &f.params {
                    want_p.insert(fact(&[("ename", f.name.clone()), ("name", p.name.clone()), ("type", p.ty.render()), ("default", norm_json(&default_json(p)))]));
                }
            }
        }
        if let Some((k, m)) = diff("entrypoint-parameters", &got, &want_p) {
            return fail(k, m);
        }
    }
    // a query that lets the adapter use its candidate hints: look types up by name
    {
        let names: Vec<String> = doc.types.iter().filter(|t| t.name != doc.root).map(|t| t.name.clone()).collect();
        let mut pick: Vec<String> = names.iter().filter(|_| c.chance(128)).cloned().collect();
        pick.push("NoSuchType".into());
        pick.push(doc.root.clone());
        let iq = match engine::compile(meta_schema(), Q_BY_NAME) {
            CompileOutcome::Ok(iq) => iq,
            other => return Verdict::HarnessBug(format!("{other:?}")),
        };
        let args: BTreeMap<Arc<str>, FieldValue> =
            BTreeMap::from([(Arc::from("names"), FieldValue::List(pick.iter().map(|n| FieldValue::String(Arc::from(n.as_str()))).collect::<Vec<_>>().into()))]);
        let out = engine::catch(|| {
            let adapter = Arc::new(SchemaAdapter::new(&schema));
            trustfall_core::interpreter::execution::interpret_ir(adapter, iq, Arc::new(args)).expect("args").collect::<Vec<_>>()
        });
        match out {
            Ok(rows) => {
                let got: BTreeSet<String> = rows.iter().map(|r| fv_text(&r["name"])).collect();
                let want: BTreeSet<String> = pick.iter().filter(|n| names.contains(n)).cloned().collect();
                if got != want {
                    return fail("c20:lookup-by-name-differs".into(), format!("asked for {pick:?}, got {got:?}, expected {want:?}"));
                }
            }
            Err(p) => return fail(format!("c20:introspection-panicked|{}", p.file()), p.render()),
        }
    }
    // relations looked up through a static filter on the *neighbour's* name (`=` with one name, `one_of` with a few): the
    // adapter may answer such edges from the filter's candidate hint instead of enumerating, and has to give the same pairs
    {
        let type_names: Vec<String> = doc.types.iter().filter(|t| t.name != doc.root).map(|t| t.name.clone()).collect();
        let mut field_names: Vec<String> = doc.types.iter().filter(|t| t.name != doc.root).flat_map(|t| t.fields.iter().map(|f| f.name.clone())).collect();
        field_names.sort();
        field_names.dedup();
        // (relation name, query with the filter on the neighbour's name, all pairs of the relation from the AST)
        let mut relations: Vec<(&str, &str, Vec<(String, String)>, &Vec<String>)> = vec![];
        let mut implementer = vec![];
        let mut implements = vec![];
        let mut property = vec![];
        let mut edge = vec![];
        let mut target = vec![];
        for t in doc.types.iter().filter(|t| t.name != doc.root) {
            if t.is_interface {
                for sub in doc.strict_subtypes(&t.name) {
                    implementer.push((t.name.clone(), sub));
                }
            }
            for i in &t.implements {
                implements.push((t.name.clone(), i.clone()));
            }
            for p in doc.properties(&t.name) {
                property.push((t.name.clone(), p.name.clone()));
            }
            for e in doc.edges(&t.name) {
                edge.push((t.name.clone(), e.name.clone()));
                target.push((format!("{}.{}", t.name, e.name), e.ty.base.clone()));
            }
        }
        relations.push(("implementer", "{ VertexType { a: name @output implementer { b: name @output @filter(op: \"OP\", value: [\"$x\"]) } } }", implementer, &type_names));
        relations.push(("implements", "{ VertexType { a: name @output implements { b: name @output @filter(op: \"OP\", value: [\"$x\"]) } } }", implements, &type_names));
        relations.push(("property", "{ VertexType { a: name @output property { b: name @output @filter(op: \"OP\", value: [\"$x\"]) } } }", property, &field_names));
        relations.push(("edge", "{ VertexType { a: name @output edge { b: name @output @filter(op: \"OP\", value: [\"$x\"]) } } }", edge, &field_names));
        let n_rel = relations.len();
        let (rel, query, pairs, pool) = relations.swap_remove(c.below(n_rel));
        let _ = target;
        if !pool.is_empty() {
            let use_list = c.chance(100);
            let mut picked: Vec<String> = vec![pool[c.below(pool.len())].clone()];
            if use_list {
                for _ in 0..c.below(3) {
                    picked.push(pool[c.below(pool.len())].clone());
                }
                if c.chance(60) {
                    picked.push("NoSuchName".into());
                }
            }
            let q = query.replace("OP", if use_list { "one_of" } else { "=" });
            let value = if use_list {
                FieldValue::List(picked.iter().map(|n| FieldValue::String(Arc::from(n.as_str()))).collect::<Vec<_>>().into())
            } else {
                FieldValue::String(Arc::from(picked[0].as_str()))
            };
            let got = match run_meta_with(&schema, &q, BTreeMap::from([(Arc::from("x"), value)])) {
                Ok(r) => r,
                Err(e) if e.starts_with("PANIC:") => return fail(format!("c20:introspection-panicked|{}", first_line(&e).chars().take(80).collect::<String>()), format!("{e}\nquery: {q}")),
                Err(e) => return Verdict::HarnessBug(e),
            };
            let want_pairs: BTreeSet<Vec<(String, String)>> =
                pairs.iter().filter(|(_, b)| picked.contains(b)).map(|(a, b)| fact(&[("a", a.clone()), ("b", b.clone())])).collect();
            if counting {
                stats.label(&format!("filtered_relation:{rel}"));
                if !want_pairs.is_empty() {
                    stats.label("filtered_relation_with_matches");
                }
            }
            if got != want_pairs {
                let missing: Vec<_> = want_pairs.difference(&got).take(3).collect();
                let extra: Vec<_> = got.difference(&want_pairs).take(3).collect();
                return fail(
                    format!("c20:filtered-{rel}-differ"),
                    format!("{rel} filtered by neighbour name {picked:?}: missing {missing:?}; unexpected {extra:?}\nquery: {q}"),
                );
            }
        }
    }
    // the introspection adapter itself satisfies the adapter contract
    let inv = engine::catch(|| check_adapter_invariants(meta_schema(), SchemaAdapter::new(&schema)));
    if let Err(p) = inv {
        return fail("c20:introspection-adapter-breaks-contract".into(), p.render());
    }
    Verdict::Pass
}

pub fn c20(ctx: &CheckCtx) -> i32 {
    if ctx.replay.is_some() {
        return replay_with(ctx, &|_s, b| c20_case(b, &mut Stats::default(), false));
    }
    let mut report = Report::new(
        ctx,
        "choice stream -> valid schema AST with docs, interface hierarchies, parameterised edges with every default form; ten \
         fixed full-coverage queries against SchemaAdapter (vertex types directly and via Schema, properties with types and docs, \
         edges with target / to_many / at_least_one, parameters with type and JSON default, implements / implementer sets, \
         entrypoints directly and via Schema with their parameters, lookup by a generated name list so that the adapter's own \
         candidate hints are exercised) compared as sets with facts computed from the AST; one of the relations implementer / \
         implements / property / edge looked up through a static `=` or `one_of` filter on the neighbour's name (names taken from \
         the schema) compared with the filtered pairs of the AST; then \
         check_adapter_invariants(meta_schema, SchemaAdapter) must pass. Non-trivial: schema with an interface hierarchy and a \
         parameter with a non-null default; distinct by SDL hash.",
    );
    report.assume("implementer is read as: the strict subtypes of an interface, empty for object types (the schema's own doc text)");
    let cases = ctx.cases(100_000, 1_000_000);
    let res = search(ctx, "c20", cases, 32, 400, c20_case);
    report.absorb(res, &|b| {
        let doc = gen_schema(&mut Choices::new(b), &SchemaGenConfig { docs: true, ..SchemaGenConfig::default() });
        json!({"schema": doc.render()})
    });
    report.finish()
}

// ---------------------------------------------------------------------------------------------
// C25

#[derive(Clone, Debug, PartialEq)]
enum Coord {
    Property { ty: String, prop: String },
    Edge { ty: String, edge: String },
    Coercion { from: String, to: String },
}

#[derive(Clone, Debug, PartialEq)]
enum FaultKind {
    /// swap the outputs at positions i and i+1
    Reorder(usize),
    /// non-null property / one neighbour / true coercion for the context at position k (all contexts have no vertex)
    WrongAnswerForMissingVertex(usize),
}

#[derive(Clone, Debug)]
struct Fault {
    coord: Coord,
    kind: FaultKind,
}

#[derive(Clone, Debug)]
struct ContractAdapter {
    fault: Option<Fault>,
    /// honest variation: buffer all outputs before yielding
    eager: bool,
}

fn apply_reorder<T>(items: Vec<T>, kind: Option<&FaultKind>) -> Vec<T> {
    let mut items = items;
    if let Some(FaultKind::Reorder(i)) = kind {
        if *i + 1 < items.len() {
            items.swap(*i, *i + 1);
        }
    }
    items
}

impl ContractAdapter {
    fn fault_for(&self, coord: &Coord) -> Option<&FaultKind> {
        self.fault.as_ref().filter(|f| &f.coord == coord).map(|f| &f.kind)
    }
}

impl<'a> Adapter<'a> for ContractAdapter {
    type Vertex = u8;

    fn resolve_starting_vertices(&self, _e: &Arc<str>, _p: &EdgeParameters, _i: &ResolveInfo) -> VertexIterator<'a, u8> {
        Box::new(std::iter::empty())
    }

    fn resolve_property<V: AsVertex<u8> + 'a>(
        &self,
        contexts: ContextIterator<'a, V>,
        type_name: &Arc<str>,
        property_name: &Arc<str>,
        _i: &ResolveInfo,
    ) -> ContextOutcomeIterator<'a, V, FieldValue> {
        let kind = self.fault_for(&Coord::Property { ty: type_name.to_string(), prop: property_name.to_string() }).cloned();
        let wrong = if let Some(FaultKind::WrongAnswerForMissingVertex(k)) = &kind { Some(*k) } else { None };
        let mapped = contexts.enumerate().map(move |(i, ctx)| {
            let v = if ctx.active_vertex::<u8>().is_none() && wrong != Some(i) { FieldValue::Null } else { FieldValue::Int64(1) };
            (ctx, v)
        });
        if kind.is_some() || self.eager {
            let items: Vec<_> = mapped.collect();
            Box::new(apply_reorder(items, kind.as_ref()).into_iter())
        } else {
            Box::new(mapped)
        }
    }

    fn resolve_neighbors<V: AsVertex<u8> + 'a>(
        &self,
        contexts: ContextIterator<'a, V>,
        type_name: &Arc<str>,
        edge_name: &Arc<str>,
        _p: &EdgeParameters,
        _i: &ResolveEdgeInfo,
    ) -> ContextOutcomeIterator<'a, V, VertexIterator<'a, u8>> {
        let kind = self.fault_for(&Coord::Edge { ty: type_name.to_string(), edge: edge_name.to_string() }).cloned();
        let wrong = if let Some(FaultKind::WrongAnswerForMissingVertex(k)) = &kind { Some(*k) } else { None };
        let mapped = contexts.enumerate().map(move |(i, ctx)| {
            let n: VertexIterator<'a, u8> = if ctx.active_vertex::<u8>().is_none() && wrong != Some(i) {
                Box::new(std::iter::empty())
            } else {
                Box::new(std::iter::once(7u8))
            };
            (ctx, n)
        });
        if kind.is_some() || self.eager {
            let items: Vec<_> = mapped.collect();
            Box::new(apply_reorder(items, kind.as_ref()).into_iter())
        } else {
            Box::new(mapped)
        }
    }

    fn resolve_coercion<V: AsVertex<u8> + 'a>(
        &self,
        contexts: ContextIterator<'a, V>,
        type_name: &Arc<str>,
        coerce_to_type: &Arc<str>,
        _i: &ResolveInfo,
    ) -> ContextOutcomeIterator<'a, V, bool> {
        let kind = self.fault_for(&Coord::Coercion { from: type_name.to_string(), to: coerce_to_type.to_string() }).cloned();
        let wrong = if let Some(FaultKind::WrongAnswerForMissingVertex(k)) = &kind { Some(*k) } else { None };
        let mapped = contexts.enumerate().map(move |(i, ctx)| {
            let ok = !(ctx.active_vertex::<u8>().is_none() && wrong != Some(i));
            (ctx, ok)
        });
        if kind.is_some() || self.eager {
            let items: Vec<_> = mapped.collect();
            Box::new(apply_reorder(items, kind.as_ref()).into_iter())
        } else {
            Box::new(mapped)
        }
    }
}

/// (coordinate, is it one the checker documents covering)
fn coordinates(doc: &SchemaDoc) -> Vec<(Coord, bool, bool)> {
    // (coord, checked, inherited-or-coercion)
    let mut out = vec![];
    for t in &doc.types {
        if t.name == doc.root {
            continue;
        }
        out.push((Coord::Property { ty: t.name.clone(), prop: "__typename".into() }, true, false));
        for f in &t.fields {
            let inherited = t.implements.iter().any(|i| doc.field(i, &f.name).is_some());
            if doc.is_edge(f) {
                let checked = f.params.iter().all(|p| p.default.is_some() || p.ty.nullable());
                out.push((Coord::Edge { ty: t.name.clone(), edge: f.name.clone() }, checked, inherited));
            } else {
                out.push((Coord::Property { ty: t.name.clone(), prop: f.name.clone() }, true, inherited));
            }
        }
        for i in &t.implements {
            out.push((Coord::Coercion { from: i.clone(), to: t.name.clone() }, true, true));
        }
    }
    out
}

pub fn c25_case(bytes: &[u8], stats: &mut Stats, counting: bool) -> Verdict {
    let mut c = Choices::new(bytes);
    let fault_bytes: Vec<u8> = (0..6).map(|_| c.byte()).collect();
    let doc = gen_schema(&mut c, &SchemaGenConfig::default());
    let sdl = doc.render();
    let schema = match engine::parse_schema(&sdl) {
        Ok(Ok(s)) => s,
        other => return Verdict::HarnessBug(format!("generated schema rejected: {other:?}\n{sdl}")),
    };
    let mut f = Choices::new(&fault_bytes);
    let coords = coordinates(&doc);
    let inject = f.chance(200);
    let eager = f.chance(100);
    let (fault, checked, special) = if inject && !coords.is_empty() {
        let (coord, checked, special) = coords[f.below(coords.len())].clone();
        let kind = if f.chance(128) { FaultKind::Reorder(f.below(8)) } else { FaultKind::WrongAnswerForMissingVertex(f.below(9)) };
        (Some(Fault { coord, kind }), checked, special)
    } else {
        (None, false, false)
    };
    let adapter = ContractAdapter { fault: fault.clone(), eager };
    let outcome = engine::catch(|| check_adapter_invariants(&schema, adapter));
    if counting {
        match &fault {
            None => stats.label("honest_adapter"),
            Some(fl) => {
                stats.label(match (&fl.coord, &fl.kind) {
                    (Coord::Property { .. }, FaultKind::Reorder(_)) => "fault:property:reorder",
                    (Coord::Property { .. }, _) => "fault:property:non_null_for_missing_vertex",
                    (Coord::Edge { .. }, FaultKind::Reorder(_)) => "fault:edge:reorder",
                    (Coord::Edge { .. }, _) => "fault:edge:neighbor_for_missing_vertex",
                    (Coord::Coercion { .. }, FaultKind::Reorder(_)) => "fault:coercion:reorder",
                    (Coord::Coercion { .. }, _) => "fault:coercion:true_for_missing_vertex",
                });
                if !checked {
                    stats.label("fault_on_documented_unchecked_coordinate");
                }
                if special && checked && stats.nontrivial(format!("{sdl}{fl:?}").as_bytes()) {
                    stats.sample(|| json!({"schema": sdl, "fault": format!("{fl:?}")}));
                }
            }
        }
    }
    let panicked = outcome.is_err();
    match (&fault, checked) {
        (None, _) => {
            if panicked {
                Verdict::Fail {
                    sig: "c25:checker-rejects-an-honest-adapter".into(),
                    msg: format!("{}\neager={eager}\nschema:\n{sdl}", outcome.err().map(|p| p.render()).unwrap_or_default()),
                }
            } else {
                Verdict::Pass
            }
        }
        (Some(fl), true) => {
            if panicked {
                Verdict::Pass
            } else {
                let kind = match (&fl.coord, &fl.kind) {
                    (Coord::Property { .. }, FaultKind::Reorder(_)) => "property-reorder",
                    (Coord::Property { .. }, _) => "property-non-null",
                    (Coord::Edge { .. }, FaultKind::Reorder(_)) => "edge-reorder",
                    (Coord::Edge { .. }, _) => "edge-neighbor",
                    (Coord::Coercion { .. }, FaultKind::Reorder(_)) => "coercion-reorder",
                    (Coord::Coercion { .. }, _) => "coercion-true",
                };
                Verdict::Fail {
                    sig: format!("c25:checker-misses-an-injected-violation|{kind}"),
                    msg: format!("the checker passed although the adapter has fault {fl:?}\nschema:\n{sdl}"),
                }
            }
        }
        (Some(_), false) => Verdict::Pass, // documented limitation: counted only
    }
}

pub fn c25(ctx: &CheckCtx) -> i32 {
    if ctx.replay.is_some() {
        return replay_with(ctx, &|_s, b| c25_case(b, &mut Stats::default(), false));
    }
    let mut report = Report::new(
        ctx,
        "choice stream -> (fault coordinate, valid schema); a contract-abiding adapter over contexts without vertices (lazy or \
         fully buffering) optionally carries exactly one injected fault: swap of the outputs at positions i,i+1 (i < 8), or a \
         non-null property / a neighbour / a true coercion for the context at position k, at a coordinate (type, property or \
         __typename) / (type, edge) / (interface -> implementer). Oracle: check_adapter_invariants panics iff a fault was \
         injected at a coordinate it documents covering (faults on edges with a required parameter are generated and counted \
         only). Non-trivial: fault on an inherited field or on a coercion; distinct by (schema, fault).",
    );
    let cases = ctx.cases(300_000, 3_000_000);
    let res = search(ctx, "c25", cases, 32, 400, c25_case);
    report.absorb(res, &|b| {
        let mut c = Choices::new(b);
        for _ in 0..6 {
            c.byte();
        }
        json!({"schema": gen_schema(&mut c, &SchemaGenConfig::default()).render()})
    });
    report.finish()
}
