//! C11 (structural invariants of compiled queries) and C13 (rows carry exactly the declared outputs, typed as declared).

use std::{
    collections::{BTreeMap, BTreeSet},
    sync::Arc,
};

use serde_json::json;
use trustfall_core::ir::{
    Argument, EdgeKind, FieldRef, FoldSpecificFieldKind, IRFold, IRQueryComponent, IndexedQuery, Operation,
};

use crate::adapter::GraphAdapter;
use crate::checks::world::{default_gen_config, render_world_case, ROW_LIMIT, WORLD_MAX_LEN, WORLD_MIN_LEN};
use crate::checks::{replay_with, Report};
use crate::choice::Choices;
use crate::engine::{self, ExecOutcome};
use crate::query_ast::{infer_var_type, ANode};
use crate::runner::{search, CheckCtx, Stats, Verdict};
use crate::values::{Op, Ty, Value};
use crate::worldcase::{compile_case, decode_world_case, GenConfig, WorldCase};

fn num<T: serde::Serialize>(v: &T) -> usize {
    serde_json::to_value(v).ok().and_then(|x| x.as_u64()).unwrap_or(0) as usize
}

fn ty_of(t: &trustfall_core::ir::Type) -> Ty {
    Ty::parse(&t.to_string()).unwrap_or_else(|| panic!("HARNESS: cannot parse engine type {t}"))
}

fn op_of<L, R>(o: &Operation<L, R>) -> Op
where
    L: std::fmt::Debug + Clone + PartialEq + Eq,
    R: std::fmt::Debug + Clone + PartialEq + Eq,
{
    match o {
        Operation::IsNull(..) => Op::IsNull,
        Operation::IsNotNull(..) => Op::IsNotNull,
        Operation::Equals(..) => Op::Eq,
        Operation::NotEquals(..) => Op::Ne,
        Operation::LessThan(..) => Op::Lt,
        Operation::LessThanOrEqual(..) => Op::Le,
        Operation::GreaterThan(..) => Op::Gt,
        Operation::GreaterThanOrEqual(..) => Op::Ge,
        Operation::Contains(..) => Op::Contains,
        Operation::NotContains(..) => Op::NotContains,
        Operation::OneOf(..) => Op::OneOf,
        Operation::NotOneOf(..) => Op::NotOneOf,
        Operation::HasPrefix(..) => Op::HasPrefix,
        Operation::NotHasPrefix(..) => Op::NotHasPrefix,
        Operation::HasSuffix(..) => Op::HasSuffix,
        Operation::NotHasSuffix(..) => Op::NotHasSuffix,
        Operation::HasSubstring(..) => Op::HasSubstring,
        Operation::NotHasSubstring(..) => Op::NotHasSubstring,
        Operation::RegexMatches(..) => Op::Regex,
        Operation::NotRegexMatches(..) => Op::NotRegex,
        _ => panic!("HARNESS: unknown operation variant {o:?}"),
    }
}

fn right_of<L, R>(o: &Operation<L, R>) -> Option<&R>
where
    L: std::fmt::Debug + Clone + PartialEq + Eq,
    R: std::fmt::Debug + Clone + PartialEq + Eq,
{
    match o {
        Operation::IsNull(_) | Operation::IsNotNull(_) => None,
        Operation::Equals(_, r)
        | Operation::NotEquals(_, r)
        | Operation::LessThan(_, r)
        | Operation::LessThanOrEqual(_, r)
        | Operation::GreaterThan(_, r)
        | Operation::GreaterThanOrEqual(_, r)
        | Operation::Contains(_, r)
        | Operation::NotContains(_, r)
        | Operation::OneOf(_, r)
        | Operation::NotOneOf(_, r)
        | Operation::HasPrefix(_, r)
        | Operation::NotHasPrefix(_, r)
        | Operation::HasSuffix(_, r)
        | Operation::NotHasSuffix(_, r)
        | Operation::HasSubstring(_, r)
        | Operation::NotHasSubstring(_, r)
        | Operation::RegexMatches(_, r)
        | Operation::NotRegexMatches(_, r) => Some(r),
        _ => None,
    }
}

struct Comp<'a> {
    c: &'a IRQueryComponent,
    parent: Option<usize>,
    fold: Option<&'a IRFold>,
}

fn collect<'a>(c: &'a IRQueryComponent, parent: Option<usize>, fold: Option<&'a IRFold>, out: &mut Vec<Comp<'a>>) {
    let idx = out.len();
    out.push(Comp { c, parent, fold });
    for f in c.folds.values() {
        collect(&f.component, Some(idx), Some(f.as_ref()), out);
    }
}

fn all_eids_in(c: &IRQueryComponent, out: &mut BTreeSet<usize>) {
    for e in c.edges.keys() {
        out.insert(num(e));
    }
    for (e, f) in &c.folds {
        out.insert(num(e));
        all_eids_in(&f.component, out);
    }
}

/// every tag operand (FieldRef) used inside the subtree of `c` (vertex filters everywhere below,
/// post-filters of folds nested in `c`), as (ref, use vid)
fn tag_uses_in_subtree(c: &IRQueryComponent, out: &mut Vec<FieldRef>) {
    for v in c.vertices.values() {
        for f in &v.filters {
            if let Some(Argument::Tag(t)) = right_of(f) {
                out.push(t.clone());
            }
        }
    }
    for f in c.folds.values() {
        for pf in &f.post_filters {
            if let Some(Argument::Tag(t)) = right_of(pf) {
                out.push(t.clone());
            }
        }
        tag_uses_in_subtree(&f.component, out);
    }
}

fn defined_in(c: &IRQueryComponent, r: &FieldRef) -> bool {
    match r {
        FieldRef::ContextField(cf) => c.vertices.contains_key(&cf.vertex_id),
        FieldRef::FoldSpecificField(fs) => {
            c.folds.get(&fs.fold_eid).map(|f| f.to_vid == fs.fold_root_vid).unwrap_or(false)
        }
        _ => false,
    }
}

/// Returns the first violated invariant, as (short key, message).
pub fn ir_invariant_violation(iq: &IndexedQuery) -> Option<(String, String)> {
    let root = iq.ir_query.root_component.as_ref();
    let mut comps: Vec<Comp<'_>> = vec![];
    collect(root, None, None, &mut comps);
    let fail = |k: &str, m: String| Some((k.to_string(), m));

    // (1) edge i leads to vertex i+1
    for comp in &comps {
        for (eid, e) in &comp.c.edges {
            if num(&e.to_vid) != num(eid) + 1 || num(&e.eid) != num(eid) {
                return fail("edge-i-to-vertex-i+1", format!("edge {eid:?} leads to {:?}", e.to_vid));
            }
        }
        for (eid, f) in &comp.c.folds {
            if num(&f.to_vid) != num(eid) + 1 || num(&f.eid) != num(eid) {
                return fail("edge-i-to-vertex-i+1", format!("fold {eid:?} leads to {:?}", f.to_vid));
            }
        }
    }
    // (2) exactly one component per vertex / edge, and the index agrees
    let mut seen_v: BTreeMap<usize, usize> = BTreeMap::new();
    let mut seen_e: BTreeSet<usize> = BTreeSet::new();
    for (ci, comp) in comps.iter().enumerate() {
        for (vid, v) in &comp.c.vertices {
            if num(&v.vid) != num(vid) {
                return fail("vertex-key-mismatch", format!("vertex keyed {vid:?} has vid {:?}", v.vid));
            }
            if seen_v.insert(num(vid), ci).is_some() {
                return fail("vertex-in-two-components", format!("{vid:?} belongs to two components"));
            }
            match iq.vids.get(vid) {
                None => return fail("vid-index-incomplete", format!("{vid:?} missing from IndexedQuery.vids")),
                Some(ic) => {
                    if ic.root != comp.c.root {
                        return fail("vid-index-wrong-component", format!("{vid:?} indexed under component {:?}", ic.root));
                    }
                }
            }
        }
        for eid in comp.c.edges.keys().chain(comp.c.folds.keys()) {
            if !seen_e.insert(num(eid)) {
                return fail("edge-in-two-components", format!("{eid:?} appears twice"));
            }
            match iq.eids.get(eid) {
                None => return fail("eid-index-incomplete", format!("{eid:?} missing from IndexedQuery.eids")),
                Some(EdgeKind::Regular(_)) if comp.c.edges.contains_key(eid) => {}
                Some(EdgeKind::Fold(_)) if comp.c.folds.contains_key(eid) => {}
                Some(_) => return fail("eid-index-wrong-kind", format!("{eid:?} indexed with the wrong kind")),
            }
        }
        if !comp.c.vertices.contains_key(&comp.c.root) {
            return fail("component-root-missing", format!("root {:?} not among its vertices", comp.c.root));
        }
    }
    if iq.vids.len() != seen_v.len() {
        return fail("vid-index-extra", "IndexedQuery.vids has entries for unknown vertices".into());
    }
    if iq.eids.len() != seen_e.len() {
        return fail("eid-index-extra", "IndexedQuery.eids has entries for unknown edges".into());
    }
    // every vertex other than the query root is the target of exactly one edge or fold
    let mut targets: BTreeSet<usize> = BTreeSet::new();
    for comp in &comps {
        for e in comp.c.edges.values() {
            targets.insert(num(&e.to_vid));
        }
        for f in comp.c.folds.values() {
            targets.insert(num(&f.to_vid));
        }
    }
    for v in seen_v.keys() {
        if *v != num(&root.root) && !targets.contains(v) {
            return fail("vertex-without-incoming-edge", format!("vertex {v} is not the target of any edge"));
        }
    }
    // (3) direction and endpoints
    for comp in &comps {
        for e in comp.c.edges.values() {
            if num(&e.from_vid) >= num(&e.to_vid) {
                return fail("edge-direction", format!("edge {:?} goes {:?} -> {:?}", e.eid, e.from_vid, e.to_vid));
            }
            if !comp.c.vertices.contains_key(&e.from_vid) || !comp.c.vertices.contains_key(&e.to_vid) {
                return fail("edge-endpoints-outside-component", format!("edge {:?}", e.eid));
            }
        }
        for f in comp.c.folds.values() {
            if num(&f.from_vid) >= num(&f.to_vid) {
                return fail("edge-direction", format!("fold {:?} goes {:?} -> {:?}", f.eid, f.from_vid, f.to_vid));
            }
            if !comp.c.vertices.contains_key(&f.from_vid) {
                return fail("fold-source-outside-parent", format!("fold {:?}", f.eid));
            }
            if f.to_vid != f.component.root {
                return fail("fold-target-not-child-root", format!("fold {:?}", f.eid));
            }
        }
    }
    // (4) folds precede their contents; eids of a component subtree are contiguous
    {
        let mut all = BTreeSet::new();
        all_eids_in(root, &mut all);
        if let (Some(min), Some(max)) = (all.iter().next(), all.iter().next_back()) {
            if *min != 1 || max - min + 1 != all.len() {
                return fail("eids-not-contiguous", format!("query eids are {all:?}"));
            }
        }
    }
    for comp in &comps {
        for (eid, f) in &comp.c.folds {
            let mut inside = BTreeSet::new();
            all_eids_in(&f.component, &mut inside);
            if let (Some(min), Some(max)) = (inside.iter().next(), inside.iter().next_back()) {
                if *min != num(eid) + 1 {
                    return fail("fold-does-not-precede-contents", format!("fold {eid:?} contains eids {inside:?}"));
                }
                if max - min + 1 != inside.len() {
                    return fail("eids-not-contiguous", format!("fold {eid:?} contains eids {inside:?}"));
                }
            }
        }
    }
    // (5) tags are defined at vertices resolved before their uses, in the same or an enclosing component
    let ancestors = |mut ci: usize| -> Vec<usize> {
        let mut v = vec![ci];
        while let Some(p) = comps[ci].parent {
            v.push(p);
            ci = p;
        }
        v
    };
    for (ci, comp) in comps.iter().enumerate() {
        let chain = ancestors(ci);
        for v in comp.c.vertices.values() {
            for f in &v.filters {
                if let Some(Argument::Tag(t)) = right_of(f) {
                    if num(&t.defined_at()) > num(&v.vid) {
                        return fail("tag-used-before-definition", format!("filter at {:?} uses {t:?}", v.vid));
                    }
                    if !chain.iter().any(|a| defined_in(comps[*a].c, t)) {
                        return fail("tag-defined-outside-enclosing-components", format!("filter at {:?} uses {t:?}", v.vid));
                    }
                }
            }
        }
        for fold in comp.c.folds.values() {
            for pf in &fold.post_filters {
                if let Some(Argument::Tag(t)) = right_of(pf) {
                    if num(&t.defined_at()) > num(&fold.to_vid) {
                        return fail("tag-used-before-definition", format!("post-filter of fold {:?} uses {t:?}", fold.eid));
                    }
                    if let FieldRef::FoldSpecificField(fs) = t {
                        if num(&fs.fold_eid) >= num(&fold.eid) {
                            return fail("tag-used-before-definition", format!("post-filter of fold {:?} uses count of fold {:?}", fold.eid, fs.fold_eid));
                        }
                    }
                    if !chain.iter().any(|a| defined_in(comps[*a].c, t)) {
                        return fail("tag-defined-outside-enclosing-components", format!("post-filter of fold {:?} uses {t:?}", fold.eid));
                    }
                }
            }
        }
    }
    // (6) imported tags are exactly those used inside a fold and defined in its parent component
    for comp in &comps {
        for fold in comp.c.folds.values() {
            let mut dedup: Vec<&FieldRef> = vec![];
            for t in &fold.imported_tags {
                if dedup.contains(&t) {
                    return fail("imported-tags-duplicate", format!("fold {:?} imports {t:?} twice", fold.eid));
                }
                dedup.push(t);
            }
            let mut uses = vec![];
            tag_uses_in_subtree(&fold.component, &mut uses);
            let mut expected: Vec<FieldRef> = vec![];
            for u in uses {
                if defined_in(comp.c, &u) && !expected.contains(&u) {
                    expected.push(u);
                }
            }
            for e in &expected {
                if !fold.imported_tags.contains(e) {
                    return fail("imported-tags-missing", format!("fold {:?} uses {e:?} from its parent but does not import it", fold.eid));
                }
            }
            for t in &fold.imported_tags {
                if !expected.contains(t) {
                    return fail("imported-tags-extra", format!("fold {:?} imports {t:?} which is not a parent-component tag used inside it", fold.eid));
                }
            }
        }
    }
    // (7) variables
    let mut used_vars: BTreeSet<String> = BTreeSet::new();
    let mut check_var = |op: Op, left: Ty, vr: &trustfall_core::ir::VariableRef| -> Option<(String, String)> {
        used_vars.insert(vr.variable_name.to_string());
        let use_ty = ty_of(&vr.variable_type);
        match iq.ir_query.variables.get(&vr.variable_name) {
            None => return Some(("variable-use-not-recorded".into(), format!("${} is used but not recorded", vr.variable_name))),
            Some(rec) => {
                let rec_ty = ty_of(rec);
                if !rec_ty.is_subtype_of(&use_ty) {
                    return Some((
                        "variable-recorded-type-incompatible".into(),
                        format!("${} recorded as {} but used as {}", vr.variable_name, rec_ty.render(), use_ty.render()),
                    ));
                }
            }
        }
        match infer_var_type(op, &left) {
            Some(expected) if expected == use_ty => None,
            other => Some((
                "variable-use-type-not-per-rule".into(),
                format!(
                    "${} used with {} against {} has use-site type {} (documented rule gives {:?})",
                    vr.variable_name,
                    op.name(),
                    left.render(),
                    use_ty.render(),
                    other.map(|t| t.render())
                ),
            )),
        }
    };
    for comp in &comps {
        for v in comp.c.vertices.values() {
            for f in &v.filters {
                if let Some(Argument::Variable(vr)) = right_of(f) {
                    let left = match f {
                        Operation::IsNull(l) | Operation::IsNotNull(l) => l,
                        _ => left_of(f),
                    };
                    if let Some(e) = check_var(op_of(f), ty_of(&left.field_type), vr) {
                        return Some(e);
                    }
                }
            }
        }
        for fold in comp.c.folds.values() {
            for pf in &fold.post_filters {
                if let Some(Argument::Variable(vr)) = right_of(pf) {
                    let left_ty = match left_of(pf) {
                        FoldSpecificFieldKind::Count => Ty::named("Int", false),
                        _ => Ty::named("Int", false),
                    };
                    if let Some(e) = check_var(op_of(pf), left_ty, vr) {
                        return Some(e);
                    }
                }
            }
        }
    }
    for name in iq.ir_query.variables.keys() {
        if !used_vars.contains(name.as_ref()) {
            return fail("variable-recorded-but-unused", format!("${name} is recorded but never used"));
        }
    }
    // (8) outputs
    let mut names: BTreeSet<String> = BTreeSet::new();
    for comp in &comps {
        for (name, cf) in &comp.c.outputs {
            if !comp.c.vertices.contains_key(&cf.vertex_id) {
                return fail("output-outside-component", format!("output {name} refers to {:?}", cf.vertex_id));
            }
            if !names.insert(name.to_string()) {
                return fail("output-name-duplicate", format!("output {name} declared twice"));
            }
        }
        for fold in comp.c.folds.values() {
            for name in fold.fold_specific_outputs.keys() {
                if !names.insert(name.to_string()) {
                    return fail("output-name-duplicate", format!("output {name} declared twice"));
                }
            }
        }
    }
    let indexed: BTreeSet<String> = iq.outputs.keys().map(|k| k.to_string()).collect();
    if names != indexed {
        return fail("output-index-mismatch", format!("components declare {names:?}, index has {indexed:?}"));
    }
    None
}

fn left_of<L, R>(o: &Operation<L, R>) -> &L
where
    L: std::fmt::Debug + Clone + PartialEq + Eq,
    R: std::fmt::Debug + Clone + PartialEq + Eq,
{
    match o {
        Operation::IsNull(l)
        | Operation::IsNotNull(l)
        | Operation::Equals(l, _)
        | Operation::NotEquals(l, _)
        | Operation::LessThan(l, _)
        | Operation::LessThanOrEqual(l, _)
        | Operation::GreaterThan(l, _)
        | Operation::GreaterThanOrEqual(l, _)
        | Operation::Contains(l, _)
        | Operation::NotContains(l, _)
        | Operation::OneOf(l, _)
        | Operation::NotOneOf(l, _)
        | Operation::HasPrefix(l, _)
        | Operation::NotHasPrefix(l, _)
        | Operation::HasSuffix(l, _)
        | Operation::NotHasSuffix(l, _)
        | Operation::HasSubstring(l, _)
        | Operation::NotHasSubstring(l, _)
        | Operation::RegexMatches(l, _)
        | Operation::NotRegexMatches(l, _) => l,
        _ => panic!("HARNESS: unknown operation variant"),
    }
}

pub fn c11_case(bytes: &[u8], stats: &mut Stats, counting: bool, cfg: &GenConfig) -> Verdict {
    let mut c = Choices::new(bytes);
    let case = decode_world_case(&mut c, cfg);
    let compiled = match compile_case(&case) {
        Ok(x) => x,
        Err(Verdict::Fail { .. }) => return Verdict::Discard("frontend-panic(C10)".into()),
        Err(v) => return v,
    };
    if counting {
        for l in case.features.labels() {
            stats.label(l);
        }
        let n_comp = 1 + case.features.fold;
        if (case.features.fold >= 1 && case.features.fold_import >= 1) || n_comp >= 2 {
            if stats.nontrivial(case.query_text.as_bytes()) {
                stats.sample(|| json!({"schema": case.sdl, "query": case.query_text}));
            }
        }
    }
    match ir_invariant_violation(&compiled.iq) {
        None => Verdict::Pass,
        Some((k, m)) => Verdict::Fail {
            sig: format!("c11:{k}"),
            msg: format!("{m}\nquery:\n{}", case.query_text),
        },
    }
}

pub fn c11(ctx: &CheckCtx) -> i32 {
    let mut cfg = default_gen_config();
    cfg.query.max_vertices = 12;
    if ctx.replay.is_some() {
        return replay_with(ctx, &|sub, bytes| {
            if sub == "c11-hostile" {
                crate::checks::frontend::c11_hostile_case(bytes, &mut Stats::default(), false)
            } else {
                c11_case(bytes, &mut Stats::default(), false, &cfg)
            }
        });
    }
    let mut report = Report::new(
        ctx,
        "choice stream -> (valid schema, valid query) plus mutated-but-accepted queries from the hostile generator; \
         an invariant checker written from the property statement over the public fields of IRQuery / IndexedQuery \
         (edge i -> vertex i+1; one component per vertex/edge and a consistent index; lower -> higher vids; folds \
         precede contiguous contents; tags defined before use in the same/enclosing component; imported tags exactly \
         the parent-component tags used inside the fold, without duplicates; variable uses recorded with compatible \
         types following the documented inference rule; outputs unique and owned by their component). Non-trivial: \
         >= 2 components or a tag crossing a fold boundary; distinct by query text.",
    );
    let cases = ctx.cases(400_000, 4_000_000);
    let res = search(ctx, "c11", cases, WORLD_MIN_LEN, WORLD_MAX_LEN, |b, s, counting| c11_case(b, s, counting, &cfg));
    report.absorb(res, &|b| render_world_case(b, &cfg));
    let cases = ctx.cases(300_000, 3_000_000);
    let res = search(ctx, "c11-hostile", cases, 32, 600, crate::checks::frontend::c11_hostile_case);
    report.absorb(res, &|b| crate::checks::frontend::render_hostile(b));
    report.finish()
}

// ---------------------------------------------------------------------------------------------
// C13

/// The output types the documentation implies, derived from the annotated AST.
pub fn expected_output_types(case: &WorldCase) -> BTreeMap<String, Ty> {
    let mut out = BTreeMap::new();
    // `folds`: for each enclosing fold (outermost first) whether its source vertex is in an optional scope
    fn go(n: &ANode, folds: &[bool], out: &mut BTreeMap<String, Ty>) {
        let mut my_folds = folds.to_vec();
        if n.fold {
            // count outputs belong to the parent component at the fold's source vertex
            for name in &n.count_outputs {
                let mut t = Ty::named("Int", n.source_in_optional);
                for opt in folds.iter().rev() {
                    t = Ty::list_of(&t, *opt);
                }
                out.insert(name.clone(), t);
            }
            my_folds.push(n.source_in_optional);
        }
        for o in &n.prop_outputs {
            let mut t = o.ty.clone();
            if n.in_optional {
                t = t.with_nullable(true);
            }
            for opt in my_folds.iter().rev() {
                t = Ty::list_of(&t, *opt);
            }
            out.insert(o.name.clone(), t);
        }
        for c in &n.children {
            go(c, &my_folds, out);
        }
    }
    go(&case.ann.root, &[], &mut out);
    out
}

fn shape_sig(v: &Value) -> String {
    match v {
        Value::Null => "n".into(),
        Value::Int { .. } => "i".into(),
        Value::Float(_) => "f".into(),
        Value::Str(_) => "s".into(),
        Value::Bool(_) => "b".into(),
        Value::List(l) => {
            let mut inner: Vec<String> = l.iter().map(shape_sig).collect();
            inner.sort();
            inner.dedup();
            format!("[{}]", inner.join(""))
        }
    }
}

pub fn c13_case(bytes: &[u8], stats: &mut Stats, counting: bool, cfg: &GenConfig) -> Verdict {
    let mut c = Choices::new(bytes);
    let case = decode_world_case(&mut c, cfg);
    let compiled = match compile_case(&case) {
        Ok(x) => x,
        Err(Verdict::Fail { .. }) => return Verdict::Discard("frontend-panic(C10)".into()),
        Err(v) => return v,
    };
    let declared: BTreeMap<String, Ty> =
        compiled.iq.outputs.iter().map(|(k, o)| (k.to_string(), ty_of(&o.value_type))).collect();
    let expected = expected_output_types(&case);
    if declared != expected {
        let diff: Vec<String> = expected
            .iter()
            .filter(|(k, t)| declared.get(*k) != Some(t))
            .map(|(k, t)| format!("{k}: expected {} declared {:?}", t.render(), declared.get(k).map(|d| d.render())))
            .collect();
        let extra: Vec<&String> = declared.keys().filter(|k| !expected.contains_key(*k)).collect();
        return Verdict::Fail {
            sig: "c13:declared-output-types-differ-from-documented-rule".into(),
            msg: format!("{diff:?} extra declared: {extra:?}\nquery:\n{}", case.query_text),
        };
    }
    let adapter = Arc::new(GraphAdapter::new(case.world.clone()));
    let out = engine::execute(adapter, compiled.iq.clone(), engine::args_to_engine(&case.args), ROW_LIMIT);
    let rows = match out {
        ExecOutcome::Budget => return Verdict::Discard("too-much-work".into()),
        ExecOutcome::Rows(r) => r,
        ExecOutcome::ArgError(_) => return Verdict::Discard("args-rejected(C12)".into()),
        ExecOutcome::Panic(p, _) => {
            // the engine's own debug assertion in `construct_outputs` states this very property (the row's key set equals
            // the declared output names); the harness builds with debug assertions, so there a row with missing or extra
            // names surfaces as that assertion failing instead of as a row
            if p.file() == "execution.rs"
                && p.message.contains("assertion `left == right` failed")
                && !p.message.contains("mismatch on whether the fold")
            {
                return Verdict::Fail {
                    sig: "c13:row-keys-differ-from-declared-outputs(engine-debug-assertion)".into(),
                    msg: format!("{}\nquery:\n{}\nargs: {:?}", p.render(), case.query_text, case.args),
                };
            }
            return Verdict::Discard(if p.in_harness() { "adapter-misuse(C21)".into() } else { "engine-panic(C09)".into() })
        }
    };
    if counting {
        for l in case.features.labels() {
            stats.label(l);
        }
        stats.bump("rows_checked", rows.len() as u64);
    }
    for row in &rows {
        let r = engine::row_from_engine(row);
        let keys: BTreeSet<&String> = r.keys().collect();
        let want: BTreeSet<&String> = declared.keys().collect();
        if keys != want {
            return Verdict::Fail {
                sig: "c13:row-keys-differ-from-declared-outputs".into(),
                msg: format!("row has {keys:?}, declared {want:?}\nquery:\n{}", case.query_text),
            };
        }
        let mut interesting = false;
        for (k, v) in &r {
            let t = &declared[k];
            if !t.valid(v) {
                return Verdict::Fail {
                    sig: format!("c13:value-invalid-for-declared-type|{}", t.render()),
                    msg: format!("output {k} = {v:?} is not valid for declared type {}\nquery:\n{}\nargs: {:?}", t.render(), case.query_text, case.args),
                };
            }
            match v {
                Value::Null => interesting = true,
                Value::List(l) if l.iter().any(|x| matches!(x, Value::List(_))) => interesting = true,
                _ => {}
            }
        }
        if counting && (interesting || case.features.count_output > 0) {
            let sig: String = r.iter().map(|(k, v)| format!("{}:{};", declared[k].render(), shape_sig(v))).collect();
            if stats.nontrivial(sig.as_bytes()) {
                stats.sample(|| {
                    json!({"query": case.query_text, "declared": declared.iter().map(|(k, t)| (k.clone(), t.render())).collect::<BTreeMap<_, _>>(), "row": r.iter().map(|(k, v)| (k.clone(), v.to_json())).collect::<BTreeMap<_, _>>()})
                });
            }
        }
    }
    Verdict::Pass
}

pub fn c13(ctx: &CheckCtx) -> i32 {
    let cfg = default_gen_config();
    if ctx.replay.is_some() {
        return replay_with(ctx, &|_s, bytes| c13_case(bytes, &mut Stats::default(), false, &cfg));
    }
    let mut report = Report::new(
        ctx,
        "choice stream -> world with schema-conforming data; for every row: key set == declared output names, every \
         value valid for the declared type under the harness type model, and the declared types equal the types derived \
         from the AST by the documented rule (nullable inside @optional, one list level per enclosing @fold which is \
         nullable iff the fold's source is inside @optional, count = Int! or Int under @optional). Non-trivial: row with \
         a null, a nested list or a count; distinct by (declared-type signature, value-shape signature).",
    );
    report.assume("data values are Int/Float/String/Boolean and lists of them (no ID, no enums)");
    let cases = ctx.cases(600_000, 6_000_000);
    let res = search(ctx, "c13", cases, WORLD_MIN_LEN, WORLD_MAX_LEN, |b, s, counting| c13_case(b, s, counting, &cfg));
    report.absorb(res, &|b| render_world_case(b, &cfg));
    report.finish()
}
