//! C24: schemas and compiled queries can be shared across threads.
//!
//! Two parts:
//!  * static: the crate `/verif/c24` (depends on `trustfall_core` only) is compiled; it moves `Schema`,
//!    `IndexedQuery`, `IRQuery`, `Type`, `FieldValue`, `EdgeParameters`, ... into scoped threads and therefore only
//!    compiles while they are `Send + Sync`. A lost bound (E0277 "... between threads safely") is the violation.
//!  * dynamic: fresh worker processes (`tfcheck C24-WORKER <index> <batches>`) run generated batches of
//!    (schema, dataset, query, args) jobs on 2..=16 threads behind a start barrier, mixing compile-only against a
//!    shared `&Schema`, execute-only on a shared `Arc<IndexedQuery>` and compile+execute; every thread's IR text and
//!    rows must equal the sequential result. The first batch of each process starts the threads *before* anything
//!    touched the engine, so the first use of the process-wide `OnceLock`s races.

use std::{
    collections::BTreeMap,
    path::{Path, PathBuf},
    sync::{Arc, Barrier, Mutex},
};

use proptest::{
    collection::vec,
    prelude::any,
    strategy::{Strategy, ValueTree},
    test_runner::{Config, RngSeed, TestRunner},
};
use serde_json::{json, Value as Json};
use trustfall_core::{ir::IndexedQuery, schema::Schema};

use crate::{
    adapter::GraphAdapter,
    checks::{
        world::{default_gen_config, WORLD_MAX_LEN, WORLD_MIN_LEN},
        Report,
    },
    choice::Choices,
    engine::{self, CompileOutcome, ExecOutcome},
    runner::{CheckCtx, Tier, VERIF_ROOT},
    worldcase::{decode_world_case, WorldCase},
};

const JOBS_PER_BATCH: usize = 4;
const ROUNDS: usize = 3;
const ROW_LIMIT: usize = 2000;

fn rows_of(case: &WorldCase, iq: Arc<IndexedQuery>) -> String {
    match engine::execute(Arc::new(GraphAdapter::new(case.world.clone())), iq, engine::args_to_engine(&case.args), ROW_LIMIT) {
        ExecOutcome::Rows(r) => format!("{r:?}"),
        ExecOutcome::ArgError(e) => format!("argerr:{e}"),
        ExecOutcome::Panic(p, n) => format!("panic:{} after {n} rows", p.message),
        // deterministic per query (the work counter belongs to this adapter instance), so it compares like any result
        ExecOutcome::Budget => "work-budget-exhausted".to_string(),
    }
}

/// what `Schema`'s public read API says about every vertex type of the job's schema (sorted, as text)
fn schema_api_text(schema: &Schema, job: &WorldCase) -> String {
    let mut out = String::new();
    for t in &job.world.schema.types {
        let mut subs: Vec<String> = schema.subtypes(&t.name).map(|it| it.map(|s| s.to_string()).collect()).unwrap_or_default();
        subs.sort();
        out.push_str(&format!("{}: {:?}\n", t.name, subs));
    }
    out
}

fn compile_text(schema: &Schema, text: &str) -> (String, Option<Arc<IndexedQuery>>) {
    match engine::compile(schema, text) {
        CompileOutcome::Ok(iq) => (ron::to_string(&iq.ir_query).unwrap_or_else(|e| format!("ron-error:{e}")), Some(iq)),
        CompileOutcome::Err(e) => (format!("err:{e}"), None),
        CompileOutcome::Panic(p) => (format!("panic:{}", p.message), None),
    }
}

fn parse(sdl: &str) -> Option<Schema> {
    engine::parse_schema(sdl).ok().and_then(|r| r.ok())
}

/// everything one thread can observe about one job, as text
fn full_result(case: &WorldCase) -> String {
    match parse(&case.sdl) {
        None => "schema-rejected".to_string(),
        Some(schema) => {
            let (ir, iq) = compile_text(&schema, &case.query_text);
            let rows = iq.map(|iq| rows_of(case, iq)).unwrap_or_default();
            format!("{ir}\n{rows}")
        }
    }
}

struct WorkerOut {
    batches: u64,
    nontrivial: Vec<(u64, Json)>,
    labels: BTreeMap<String, u64>,
    mismatch: Option<String>,
}

fn run_worker(seed: u64, index: u64, batches: usize) -> WorkerOut {
    let cfg = default_gen_config();
    let config = Config { rng_seed: RngSeed::Fixed(seed ^ index.wrapping_mul(0x9E37_79B9).wrapping_add(0xC24)), failure_persistence: None, ..Config::default() };
    let mut runner = TestRunner::new(config);
    let strategy = vec(any::<u8>(), WORLD_MIN_LEN..=WORLD_MAX_LEN);
    let mut out = WorkerOut { batches: 0, nontrivial: vec![], labels: BTreeMap::new(), mismatch: None };
    let label = |out: &mut WorkerOut, l: &str| *out.labels.entry(l.to_string()).or_insert(0) += 1;

    let mut regex_cfg = default_gen_config();
    regex_cfg.query.regex_bias = true;
    // large schemas (up to 22 vertex types): per-schema lookup structures with a bounded size only show their eviction
    // behaviour beyond a handful of types
    let mut big_cfg = default_gen_config();
    big_cfg.schema.max_ifaces = 8;
    big_cfg.schema.max_objects = 14;
    for b in 0..batches {
        // every third batch is biased towards regex filters with tag operands: those are compiled at run time, per value
        let batch_cfg = if b % 3 == 1 { &regex_cfg } else if b % 3 == 2 { &big_cfg } else { &cfg };
        let jobs: Vec<WorldCase> = (0..JOBS_PER_BATCH)
            .map(|_| {
                let bytes = strategy.new_tree(&mut runner).expect("generate").current();
                decode_world_case(&mut Choices::new(&bytes), batch_cfg)
            })
            .collect();
        if jobs.iter().any(|j| j.query_text.contains("regex\", value: [\"%")) {
            label(&mut out, "batch_with_a_tagged_regex_filter");
        }
        // thread count from the generated stream too (first job's vertex count is as good a source as any
        // and keeps the run a pure function of the seed)
        let n_threads = 2 + ((jobs[0].world.data.vertices.len() + b) % 15);
        out.batches += 1;
        label(&mut out, &format!("threads_{}", if n_threads <= 4 { "2-4" } else if n_threads <= 8 { "5-8" } else { "9-16" }));

        if b == 0 {
            // cold start: nothing in this process has used the engine yet; all threads parse, compile and execute
            // at once, so the lazily initialised process-wide statics are first touched concurrently
            let barrier = Barrier::new(n_threads);
            let results: Mutex<Vec<(usize, usize, String)>> = Mutex::new(vec![]);
            std::thread::scope(|scope| {
                for t in 0..n_threads {
                    let (jobs, barrier, results) = (&jobs, &barrier, &results);
                    scope.spawn(move || {
                        barrier.wait();
                        let idx = t % jobs.len();
                        let r = full_result(&jobs[idx]);
                        results.lock().unwrap().push((t, idx, r));
                    });
                }
            });
            label(&mut out, "cold_start_race");
            let expected: Vec<String> = jobs.iter().map(full_result).collect();
            for (t, idx, r) in results.into_inner().unwrap() {
                if r != expected[idx] {
                    out.mismatch = Some(format!(
                        "batch 0 (cold start), thread {t} of {n_threads}: parse+compile+execute of job {idx} differs from the sequential result\nquery:\n{}\nconcurrent:\n{}\nsequential:\n{}",
                        jobs[idx].query_text,
                        clip(&r),
                        clip(&expected[idx])
                    ));
                    return out;
                }
            }
        }

        let schemas: Vec<Option<Schema>> = jobs.iter().map(|j| parse(&j.sdl)).collect();
        // the read API of a shared schema, as adapters use it (`resolve_coercion_using_schema` calls `subtypes`)
        let schema_api: Vec<String> = jobs.iter().zip(schemas.iter()).map(|(j, s)| s.as_ref().map(|s| schema_api_text(s, j)).unwrap_or_default()).collect();
        if jobs.iter().any(|j| j.world.schema.types.len() > 17) {
            label(&mut out, "batch_with_a_schema_of_more_than_16_vertex_types");
        }
        let mut expected: Vec<(String, String)> = vec![];
        let mut compiled: Vec<Option<Arc<IndexedQuery>>> = vec![];
        for (j, s) in jobs.iter().zip(schemas.iter()) {
            match s {
                None => {
                    expected.push((String::new(), String::new()));
                    compiled.push(None);
                }
                Some(s) => {
                    let (ir, iq) = compile_text(s, &j.query_text);
                    let rows = iq.as_ref().map(|iq| rows_of(j, iq.clone())).unwrap_or_default();
                    expected.push((ir, rows));
                    compiled.push(iq);
                }
            }
        }
        let barrier = Barrier::new(n_threads);
        let mismatches: Mutex<Vec<String>> = Mutex::new(vec![]);
        let shared_exec = compiled.iter().filter(|c| c.is_some()).count();
        std::thread::scope(|scope| {
            for t in 0..n_threads {
                let (jobs, schemas, compiled, expected, barrier, mismatches, schema_api) =
                    (&jobs, &schemas, &compiled, &expected, &barrier, &mismatches, &schema_api);
                scope.spawn(move || {
                    barrier.wait();
                    for round in 0..ROUNDS {
                        for k in 0..jobs.len() {
                            let idx = (k + t + round) % jobs.len();
                            let Some(schema) = &schemas[idx] else { continue };
                            let mode = (t + round) % 4;
                            let (what, ok, got) = match mode {
                                3 => {
                                    let text = match engine::catch(|| schema_api_text(schema, &jobs[idx])) {
                                        Ok(t) => t,
                                        Err(p) => format!("panic: {}", p.message),
                                    };
                                    ("read the shared &Schema (subtypes of every type)", text == schema_api[idx], text)
                                }
                                0 => {
                                    let (ir, _) = compile_text(schema, &jobs[idx].query_text);
                                    ("compile against the shared &Schema", ir == expected[idx].0, ir)
                                }
                                1 => match &compiled[idx] {
                                    Some(iq) => {
                                        let rows = rows_of(&jobs[idx], iq.clone());
                                        ("execute the shared Arc<IndexedQuery>", rows == expected[idx].1, rows)
                                    }
                                    None => continue,
                                },
                                _ => {
                                    let (ir, iq) = compile_text(schema, &jobs[idx].query_text);
                                    let rows = iq.map(|iq| rows_of(&jobs[idx], iq)).unwrap_or_default();
                                    ("compile+execute", ir == expected[idx].0 && rows == expected[idx].1, format!("{ir}\n{rows}"))
                                }
                            };
                            if !ok {
                                mismatches.lock().unwrap().push(format!(
                                    "thread {t} of {n_threads}, round {round}: {what} of job {idx} differs from the sequential result\nquery:\n{}\nconcurrent:\n{}\nsequential:\n{}\n{}",
                                    jobs[idx].query_text,
                                    clip(&got),
                                    clip(&expected[idx].0),
                                    clip(&expected[idx].1)
                                ));
                                return;
                            }
                        }
                    }
                });
            }
        });
        if shared_exec >= 1 {
            label(&mut out, "shared_query_executed_by_several_threads");
            let key = jobs.iter().map(|j| j.key()).collect::<Vec<_>>().concat();
            out.nontrivial.push((
                crate::choice::fnv64(&key),
                json!({"threads": n_threads, "queries": jobs.iter().map(|j| j.query_text.clone()).collect::<Vec<_>>(), "compiled": shared_exec}),
            ));
        }
        if shared_exec == jobs.len() {
            label(&mut out, "all_jobs_compiled");
        }
        let ms = mismatches.into_inner().unwrap();
        if let Some(m) = ms.into_iter().next() {
            out.mismatch = Some(format!("batch {b}: {m}"));
            return out;
        }
    }
    out
}

fn clip(s: &str) -> String {
    if s.len() > 1500 {
        let mut end = 1500;
        while !s.is_char_boundary(end) {
            end -= 1;
        }
        format!("{}…", &s[..end])
    } else {
        s.to_string()
    }
}

/// entry point of a worker process; prints one JSON line
pub fn c24_worker(seed: u64, index: u64, batches: usize) -> i32 {
    let out = run_worker(seed, index, batches);
    let j = json!({
        "batches": out.batches,
        "nontrivial": out.nontrivial.iter().map(|(h, s)| json!([format!("{h:016x}"), s])).collect::<Vec<_>>(),
        "labels": out.labels,
        "mismatch": out.mismatch,
    });
    println!("{j}");
    0
}

enum Bounds {
    Ok(f64),
    Lost(String),
    Inconclusive(String),
}

/// compiles /verif/c24 (the Send + Sync obligations) against the current tree
fn static_bounds() -> Bounds {
    let t = std::time::Instant::now();
    let dir = Path::new(VERIF_ROOT).join("c24");
    let out = std::process::Command::new("cargo")
        .args(["build", "--release", "--target-dir", "/verif/target-c24", "--message-format", "short"])
        .current_dir(&dir)
        .env("CARGO_NET_OFFLINE", "true")
        .output();
    match out {
        Err(e) => Bounds::Inconclusive(format!("cannot run cargo: {e}")),
        Ok(o) if o.status.success() => Bounds::Ok(t.elapsed().as_secs_f64()),
        Ok(o) => {
            let log = format!("{}\n{}", String::from_utf8_lossy(&o.stdout), String::from_utf8_lossy(&o.stderr));
            // only errors located in the bounds crate itself count; an error inside /repo means the tree does not build
            let lost = log.lines().any(|l| l.starts_with("src/main.rs") && l.contains("E0277") && l.contains("between threads safely"));
            if lost {
                Bounds::Lost(log)
            } else {
                Bounds::Inconclusive(log)
            }
        }
    }
}

fn spawn_worker(seed: u64, index: u64, batches: usize) -> Result<Json, String> {
    let exe = std::env::current_exe().map_err(|e| e.to_string())?;
    let o = std::process::Command::new(&exe)
        .arg("C24-WORKER")
        .arg(index.to_string())
        .arg(batches.to_string())
        .env("VERIF_SEED", seed.to_string())
        .stderr(std::process::Stdio::null())
        .output()
        .map_err(|e| format!("cannot spawn worker: {e}"))?;
    if !o.status.success() {
        return Err(format!("worker {index} exited with {:?}", o.status));
    }
    let text = String::from_utf8_lossy(&o.stdout);
    let line = text.lines().last().unwrap_or("");
    serde_json::from_str(line).map_err(|e| format!("worker {index} printed no JSON: {e}"))
}

fn write_c24_replay(name: &str, j: Json) -> PathBuf {
    let dir = Path::new(VERIF_ROOT).join("corpus").join("C24");
    let _ = std::fs::create_dir_all(&dir);
    let path = dir.join(name);
    let _ = std::fs::write(&path, serde_json::to_string_pretty(&j).unwrap());
    path
}

pub fn c24(ctx: &CheckCtx) -> i32 {
    if let Some(path) = &ctx.replay {
        return c24_replay(path);
    }
    let mut report = Report::new(
        ctx,
        "static part: the crate /verif/c24 is compiled against the tree; it only compiles while Schema, IndexedQuery, IRQuery, \
         Type, FieldValue, EdgeParameters, the argument map and the error types are Send + Sync and can cross thread::scope / \
         thread::spawn. Dynamic part: one evaluation = one batch of 4 generated (schema, dataset, query, args) jobs run by 2..=16 \
         threads behind a barrier for 3 rounds (compile against the shared &Schema / execute the shared Arc<IndexedQuery> / \
         both, rotating per thread and round) in a fresh worker process whose first batch starts the threads before anything \
         used the engine; IR text and rows of every thread are compared with the sequential result. Non-trivial: at least one \
         job of the batch compiled, so that >= 2 threads executed the same Arc<IndexedQuery> and >= 2 compiled against the same \
         &Schema at the same time; distinct by (schemas, datasets, queries, args) of the batch.",
    );
    report.assume("the operating system picks the interleavings; this finds lost Send/Sync bounds (always) and gross data races or order-dependent shared state (sometimes), not a rare interleaving");
    // static part
    match static_bounds() {
        Bounds::Ok(secs) => {
            report.stats.bump("static_bounds_crate_compiled", 1);
            report.extra.insert("static_bounds".into(), json!({"compiled": true, "build_s": secs, "crate": "/verif/c24"}));
        }
        Bounds::Lost(log) => {
            let errors: Vec<&str> = log.lines().filter(|l| l.contains("E0277")).collect();
            let path = write_c24_replay("fail-static-bounds.json", json!({"property": "C24", "subcheck": "static-bounds", "signature": "c24:send-sync-bound-lost", "errors": errors, "compiler_output": clip(&log)}));
            report.violations.push(("c24:send-sync-bound-lost".into(), errors.join("\n"), path));
            report.extra.insert("static_bounds".into(), json!({"compiled": false}));
        }
        Bounds::Inconclusive(log) => {
            eprintln!("{}", clip(&log));
            report.harness_bugs.push("the bounds crate /verif/c24 does not build for a reason other than a lost Send/Sync bound".into());
        }
    }
    // dynamic part: fresh processes, two at a time (each runs up to 16 threads)
    let (procs, batches) = match ctx.tier {
        Tier::Quick => (ctx.cases(16, 16) as u64, 60usize),
        Tier::Thorough => (ctx.cases(400, 400) as u64, 100usize),
    };
    let next = Mutex::new(0u64);
    let results: Mutex<Vec<(u64, Result<Json, String>)>> = Mutex::new(vec![]);
    std::thread::scope(|scope| {
        for _ in 0..2 {
            scope.spawn(|| loop {
                let i = {
                    let mut n = next.lock().unwrap();
                    let i = *n;
                    *n += 1;
                    i
                };
                if i >= procs {
                    break;
                }
                let r = spawn_worker(ctx.seed, i, batches);
                results.lock().unwrap().push((i, r));
            });
        }
    });
    let mut results = results.into_inner().unwrap();
    results.sort_by_key(|(i, _)| *i);
    report.stats.bump("worker_processes", procs);
    for (i, r) in results {
        match r {
            Err(e) => report.harness_bugs.push(e),
            Ok(j) => {
                report.stats.evaluations += j["batches"].as_u64().unwrap_or(0);
                for (k, v) in j["labels"].as_object().cloned().unwrap_or_default() {
                    *report.stats.labels.entry(k).or_insert(0) += v.as_u64().unwrap_or(0);
                }
                for nt in j["nontrivial"].as_array().cloned().unwrap_or_default() {
                    let h = u64::from_str_radix(nt[0].as_str().unwrap_or("0"), 16).unwrap_or(0);
                    if report.stats.nontrivial.insert(h) {
                        report.stats.sample(|| nt[1].clone());
                    }
                }
                if let Some(m) = j["mismatch"].as_str() {
                    if report.violations.iter().any(|(s, _, _)| s == "c24:concurrent-result-differs-from-sequential") {
                        report.stats.bump("further_violations_with_an_already_reported_signature", 1);
                        continue;
                    }
                    let path = write_c24_replay(
                        &format!("fail-worker-{:x}-{i}.json", ctx.seed),
                        json!({"property": "C24", "subcheck": "worker", "signature": "c24:concurrent-result-differs-from-sequential", "seed": ctx.seed, "worker": i, "batches": batches, "message": m}),
                    );
                    report.violations.push(("c24:concurrent-result-differs-from-sequential".into(), m.to_string(), path));
                }
            }
        }
    }
    report.finish()
}

/// replays a saved worker configuration (up to 5 attempts: the interleaving is the OS's) or the static part
fn c24_replay(path: &Path) -> i32 {
    let j: Json = match std::fs::read_to_string(path).map_err(|e| e.to_string()).and_then(|t| serde_json::from_str(&t).map_err(|e| e.to_string())) {
        Ok(j) => j,
        Err(e) => {
            eprintln!("cannot read {path:?}: {e}");
            return 2;
        }
    };
    if j["subcheck"] == "static-bounds" {
        return match static_bounds() {
            Bounds::Ok(_) => {
                println!("replay: the bounds crate compiles");
                0
            }
            Bounds::Lost(log) => {
                eprintln!("{}", clip(&log));
                println!("VIOLATION property=C24 replay={}", path.display());
                1
            }
            Bounds::Inconclusive(log) => {
                eprintln!("{}", clip(&log));
                2
            }
        };
    }
    let (seed, worker, batches) = (j["seed"].as_u64().unwrap_or(0), j["worker"].as_u64().unwrap_or(0), j["batches"].as_u64().unwrap_or(60) as usize);
    for attempt in 0..5 {
        match spawn_worker(seed, worker, batches) {
            Err(e) => {
                eprintln!("{e}");
                return 2;
            }
            Ok(r) => {
                if let Some(m) = r["mismatch"].as_str() {
                    eprintln!("attempt {attempt}: {m}");
                    println!("VIOLATION property=C24 replay={}", path.display());
                    return 1;
                }
            }
        }
    }
    println!("replay: 5 attempts of the saved worker configuration pass");
    0
}
