//! C02 (batching), C03 (laziness), C05 (required properties), C21 (adapter contract on the engine's side).

use std::{collections::BTreeMap, sync::Arc};

use serde_json::json;
use trustfall_core::interpreter::execution::interpret_ir;

use crate::adapter::GraphAdapter;
use crate::checks::world::{default_gen_config, render_world_case, ROW_LIMIT, WORLD_MAX_LEN, WORLD_MIN_LEN};
use crate::checks::{replay_with, Report};
use crate::choice::Choices;
use crate::engine::{self, ExecOutcome};
use crate::query_ast::{ANode, Arg, TagDef};
use crate::reference::{canon_row, RefEval};
use crate::runner::{search, CheckCtx, Stats, Verdict};
use crate::values::Value;
use crate::worldcase::{compile_case, decode_world_case, first_line, GenConfig, WorldCase};
use crate::wrappers::{BatchingAdapter, Call, CallKind, CallPlan, ChunkPlan, CountingAdapter, RecordingAdapter};

fn label_case(stats: &mut Stats, case: &WorldCase) {
    for l in case.features.labels() {
        stats.label(l);
    }
}

// ---------------------------------------------------------------------------------------------
// C02

pub fn decode_chunk_plan(c: &mut Choices<'_>) -> ChunkPlan {
    match c.below(6) {
        0 => ChunkPlan::NONE,
        1 | 2 => ChunkPlan { sequence: c.u64(), eager: false, all: false, passthrough: false },
        3 | 4 => ChunkPlan { sequence: c.u64(), eager: true, all: false, passthrough: false },
        _ => ChunkPlan { sequence: 0, eager: c.chance(128), all: true, passthrough: false },
    }
}

pub fn decode_schedule(c: &mut Choices<'_>, n: usize) -> Vec<CallPlan> {
    (0..n)
        .map(|_| CallPlan {
            input: decode_chunk_plan(c),
            output: decode_chunk_plan(c),
            neighbors: decode_chunk_plan(c),
        })
        .collect()
}

pub fn c02_case(bytes: &[u8], stats: &mut Stats, counting: bool, cfg: &GenConfig, sched_len: usize) -> Verdict {
    let mut c = Choices::new(bytes);
    // the schedule is decoded first so that it is never starved by a large world
    let schedule = decode_schedule(&mut c, sched_len);
    let case = decode_world_case(&mut c, cfg);
    let compiled = match compile_case(&case) {
        Ok(x) => x,
        Err(Verdict::Fail { .. }) => return Verdict::Discard("frontend-panic(C10)".into()),
        Err(v) => return v,
    };
    let args = engine::args_to_engine(&case.args);
    let plain = engine::execute(
        Arc::new(GraphAdapter::new(case.world.clone())),
        compiled.iq.clone(),
        args.clone(),
        ROW_LIMIT * 2,
    );
    let plain_rows = match plain {
        ExecOutcome::Budget => return Verdict::Discard("too-much-work".into()),
        ExecOutcome::Rows(r) => r,
        ExecOutcome::ArgError(_) => return Verdict::Discard("args-rejected(C12)".into()),
        ExecOutcome::Panic(..) => return Verdict::Discard("engine-panic-without-batching(C09)".into()),
    };
    if plain_rows.len() >= ROW_LIMIT * 2 {
        return Verdict::Discard("too-many-rows".into());
    }
    let (batching, bstats) = BatchingAdapter::new(GraphAdapter::new(case.world.clone()), schedule.clone());
    #[allow(clippy::arc_with_non_send_sync)]
    let out = engine::execute(Arc::new(batching), compiled.iq.clone(), args, ROW_LIMIT * 2);
    if counting {
        label_case(stats, &case);
        let ra = bstats.read_ahead_events.get();
        if ra > 0 {
            for (k, v) in bstats.kinds.borrow().iter() {
                stats.bump(&format!("read_ahead:{k}"), *v);
            }
            let mut key = case.key();
            key.extend(format!("{schedule:?}").as_bytes());
            if stats.nontrivial(&key) {
                stats.sample(|| {
                    json!({"case": case.short_json(), "schedule_first_calls": format!("{:?}", &schedule[..schedule.len().min(4)]), "read_ahead_events": ra})
                });
            }
        } else {
            stats.label("no_read_ahead_happened");
        }
    }
    match out {
        ExecOutcome::Budget => return Verdict::Discard("too-much-work".into()),
        ExecOutcome::Rows(rows) => {
            let same = rows.len() == plain_rows.len() && rows.iter().zip(plain_rows.iter()).all(|(a, b)| a == b);
            if same {
                Verdict::Pass
            } else {
                Verdict::Fail {
                    sig: "c02:rows-differ-under-batching".into(),
                    msg: format!(
                        "row sequence changed under an order-preserving read-ahead schedule: {} rows vs {} rows plain\nquery:\n{}\nargs: {:?}",
                        rows.len(),
                        plain_rows.len(),
                        case.query_text,
                        case.args
                    ),
                }
            }
        }
        ExecOutcome::ArgError(e) => Verdict::HarnessBug(format!("args accepted once and rejected the second time: {e}")),
        ExecOutcome::Panic(p, _) => Verdict::Fail {
            sig: format!("c02:panic-under-batching|{}|{}", p.location, first_line(&p.message)),
            msg: format!("engine panicked under read-ahead: {}\nquery:\n{}", p.render(), case.query_text),
        },
    }
}

pub fn c02(ctx: &CheckCtx) -> i32 {
    let cfg = default_gen_config();
    let sched_len = 24;
    if ctx.replay.is_some() {
        return replay_with(ctx, &|sub, bytes| {
            if sub == "c02-numbers" {
                numbers::c02_numbers_case(bytes, &mut Stats::default(), false)
            } else {
                c02_case(bytes, &mut Stats::default(), false, &cfg, sched_len)
            }
        });
    }
    let mut report = Report::new(
        ctx,
        "choice stream -> (per-call read-ahead schedule, world); rows under the order-preserving BatchingAdapter \
         (input prefetch, eager constructor-time prefetch, output buffering, per-neighbour-iterator buffering, chunk \
         sizes 1-4 or all) must equal the plain run's row sequence, with no panic. Non-trivial: some wrapped iterator \
         held >= 2 items before yielding its first; distinct by hash of (case, schedule). A second sub-search runs the \
         repo's own snapshot queries over NumbersAdapter under generated schedules.",
    );
    report.assume("only order-preserving schedules are generated (the adapter contract)");
    let cases = ctx.cases(600_000, 5_000_000);
    let res = search(ctx, "c02", cases, WORLD_MIN_LEN + 100, WORLD_MAX_LEN + 300, |b, s, counting| {
        c02_case(b, s, counting, &cfg, sched_len)
    });
    report.absorb(res, &|b| {
        let mut c = Choices::new(b);
        let schedule = decode_schedule(&mut c, sched_len);
        let rest = &b[c.consumed().min(b.len())..];
        json!({"schedule": format!("{schedule:?}"), "case": render_world_case(rest, &cfg)})
    });
    let ncases = ctx.cases(40_000, 400_000);
    let res = search(ctx, "c02-numbers", ncases, 16, 400, numbers::c02_numbers_case);
    report.absorb(res, &|b| numbers::render(b));
    report.finish()
}

pub mod numbers {
    //! Fixed seeds: the repository's own valid-query snapshots over `NumbersAdapter`.
    use std::{collections::BTreeMap, sync::Arc, sync::OnceLock};

    use serde_json::json;
    use trustfall_core::{
        ir::{FieldValue, IndexedQuery},
        numbers_interpreter::NumbersAdapter,
        test_types::TestIRQueryResult,
    };

    use super::decode_schedule;
    use crate::choice::Choices;
    use crate::engine::{self, ExecOutcome};
    use crate::runner::{Stats, Verdict};
    use crate::worldcase::first_line;
    use crate::wrappers::BatchingAdapter;

    pub struct NumbersQuery {
        pub name: String,
        pub iq: Arc<IndexedQuery>,
        pub args: Arc<BTreeMap<Arc<str>, FieldValue>>,
    }

    pub fn queries() -> &'static Vec<NumbersQuery> {
        static Q: OnceLock<Vec<NumbersQuery>> = OnceLock::new();
        Q.get_or_init(|| {
            let dir = "/repo/trustfall_core/test_data/tests/valid_queries";
            let mut names: Vec<String> = std::fs::read_dir(dir)
                .map(|rd| {
                    rd.filter_map(|e| e.ok())
                        .filter_map(|e| e.file_name().to_str().map(|s| s.to_string()))
                        .filter(|n| n.ends_with(".ir.ron"))
                        .collect()
                })
                .unwrap_or_default();
            names.sort();
            let mut out = vec![];
            for n in names {
                let Ok(text) = std::fs::read_to_string(format!("{dir}/{n}")) else { continue };
                let Ok(parsed) = ron::from_str::<TestIRQueryResult>(&text) else { continue };
                let Ok(tq) = parsed else { continue };
                if tq.schema_name != "numbers" {
                    continue;
                }
                let Ok(iq) = IndexedQuery::try_from(tq.ir_query) else { continue };
                let args: BTreeMap<Arc<str>, FieldValue> = tq.arguments.into_iter().map(|(k, v)| (Arc::from(k), v)).collect();
                out.push(NumbersQuery { name: n, iq: Arc::new(iq), args: Arc::new(args) });
            }
            out
        })
    }

    pub fn c02_numbers_case(bytes: &[u8], stats: &mut Stats, counting: bool) -> Verdict {
        let qs = queries();
        if qs.is_empty() {
            return Verdict::Discard("no-numbers-queries-found".into());
        }
        let mut c = Choices::new(bytes);
        let q = &qs[c.below(qs.len())];
        let schedule = decode_schedule(&mut c, 32);
        let plain = engine::execute(Arc::new(NumbersAdapter::new()), q.iq.clone(), q.args.clone(), 20_000);
        let plain_rows = match plain {
            ExecOutcome::Rows(r) => r,
            _ => return Verdict::Discard("numbers-plain-run-failed".into()),
        };
        let (b, bstats) = BatchingAdapter::new(NumbersAdapter::new(), schedule.clone());
        #[allow(clippy::arc_with_non_send_sync)]
        let out = engine::execute(Arc::new(b), q.iq.clone(), q.args.clone(), 20_000);
        if counting {
            stats.label("numbers_snapshot_query");
            if bstats.read_ahead_events.get() > 0 {
                let mut key = q.name.clone().into_bytes();
                key.extend(format!("{schedule:?}").as_bytes());
                if stats.nontrivial(&key) {
                    stats.sample(|| json!({"numbers_query": q.name, "read_ahead_events": bstats.read_ahead_events.get()}));
                }
            }
        }
        match out {
            ExecOutcome::Budget => return Verdict::Discard("too-much-work".into()),
            ExecOutcome::Rows(rows) => {
                if rows == plain_rows {
                    Verdict::Pass
                } else {
                    Verdict::Fail {
                        sig: "c02:rows-differ-under-batching(numbers)".into(),
                        msg: format!("snapshot query {} changed its rows under read-ahead", q.name),
                    }
                }
            }
            ExecOutcome::ArgError(e) => Verdict::HarnessBug(e),
            ExecOutcome::Panic(p, _) => Verdict::Fail {
                sig: format!("c02:panic-under-batching|{}|{}", p.location, first_line(&p.message)),
                msg: format!("snapshot query {} panicked under read-ahead: {}", q.name, p.render()),
            },
        }
    }

    pub fn render(bytes: &[u8]) -> serde_json::Value {
        let qs = queries();
        if qs.is_empty() {
            return json!({});
        }
        let mut c = Choices::new(bytes);
        let q = &qs[c.below(qs.len())];
        let schedule = decode_schedule(&mut c, 32);
        json!({"numbers_query": q.name, "schedule": format!("{schedule:?}")})
    }
}

// ---------------------------------------------------------------------------------------------
// C03

pub fn c03_case(bytes: &[u8], stats: &mut Stats, counting: bool, cfg: &GenConfig) -> Verdict {
    c03_case_with(bytes, stats, counting, cfg, false)
}

/// `hints == true`: the (still strictly lazy) adapter consults the engine's dynamic hints inside `resolve_neighbors`
/// (`dynamically_required_property(..).resolve(..)`) and prunes neighbours with them; starting vertices are never pruned, so
/// the pull counts stay comparable with the reference. Asking for hints must not make the engine pull anything early.
pub fn c03_case_with(bytes: &[u8], stats: &mut Stats, counting: bool, cfg: &GenConfig, hints: bool) -> Verdict {
    let mut c = Choices::new(bytes);
    let prefix_choice = c.below(256);
    let case = decode_world_case(&mut c, cfg);
    let compiled = match compile_case(&case) {
        Ok(x) => x,
        Err(Verdict::Fail { .. }) => return Verdict::Discard("frontend-panic(C10)".into()),
        Err(v) => return v,
    };
    let mut re = RefEval::new(&case.world, &case.ann, &case.args);
    let grouped = match re.eval_grouped() {
        Ok(g) => g,
        Err(_) => return Verdict::Discard("reference-overflow".into()),
    };
    let total: usize = grouped.iter().map(|g| g.len()).sum();
    if total > ROW_LIMIT {
        return Verdict::Discard("too-many-rows".into());
    }
    let n_starts = grouped.len();
    // s(k): index of the starting vertex contributing row k
    let mut s_of: Vec<usize> = vec![];
    for (i, g) in grouped.iter().enumerate() {
        for _ in g {
            s_of.push(i);
        }
    }
    let ref_rows: Vec<String> = grouped.iter().flatten().map(canon_row).collect();

    let args = engine::args_to_engine(&case.args);
    let iq = compiled.iq.clone();
    let prefix_len = if total == 0 { 0 } else { (prefix_choice * (total + 1)) >> 8 };
    let result = if hints {
        let pcfg = crate::pruning::PruneConfig {
            ignore_dynamic: crate::checks::hints::ge_tag_sites(&case),
            use_static: false,
            use_dynamic: true,
            use_mandatory: false,
        };
        let (pruning, _pstats) = crate::pruning::PruningAdapter::new(case.world.clone(), pcfg);
        let (counting_adapter, counters) = CountingAdapter::new(pruning);
        run_lazily(counting_adapter, counters, iq, args, prefix_len, &s_of, &ref_rows)
    } else {
        let (counting_adapter, counters) = CountingAdapter::new(GraphAdapter::new(case.world.clone()));
        run_lazily(counting_adapter, counters, iq, args, prefix_len, &s_of, &ref_rows)
    };
    if counting {
        label_case(stats, &case);
        if hints {
            stats.label("adapter_consults_dynamic_hints");
        }
        let zero_start = grouped.iter().any(|g| g.is_empty());
        let multi_start = grouped.iter().any(|g| g.len() >= 2);
        if n_starts >= 3 {
            stats.label("three_or_more_starts");
        }
        if n_starts >= 3 && total >= 2 && zero_start && multi_start && prefix_len < total && prefix_len > 0 {
            stats.label("strict_class:three_starts_one_empty_one_multi_row_proper_prefix");
        }
        // non-trivial: the per-row bound was actually exercised on a case where it can tell lazy from eager -- at least two
        // starting vertices, at least one row requested, and the iterator dropped before the end or a start without rows
        if n_starts >= 2 && prefix_len > 0 && (prefix_len < total || zero_start) {
            let mut key = case.key();
            key.extend(prefix_len.to_le_bytes());
            key.push(hints as u8);
            if stats.nontrivial(&key) {
                stats.sample(|| json!({"case": case.short_json(), "rows_per_start": grouped.iter().map(|g| g.len()).collect::<Vec<_>>(), "prefix": prefix_len}));
            }
        }
    }
    match result {
        Ok(Ok(None)) => Verdict::Pass,
        Ok(Ok(Some(msg))) => Verdict::Fail {
            sig: format!("c03:{}", msg.split(' ').take(4).collect::<Vec<_>>().join("-")),
            msg: format!("{msg}\nquery:\n{}\nargs: {:?}", case.query_text, case.args),
        },
        Ok(Err(e)) if e == "C01-DISAGREEMENT" => Verdict::Discard("c01-disagreement".into()),
        Ok(Err(e)) if e.starts_with("HARNESS-SELF-CHECK") => Verdict::HarnessBug(format!("{e}\n{}", case.query_text)),
        Ok(Err(_)) => Verdict::Discard("args-rejected(C12)".into()),
        Err(p) => {
            if p.is_budget() {
                Verdict::Discard("too-much-work".into())
            } else if p.in_harness() {
                Verdict::Discard("adapter-misuse(C21)".into())
            } else {
                Verdict::Discard("engine-panic(C09)".into())
            }
        }
    }
}

type LazyRun = Result<Result<Option<String>, String>, crate::engine::PanicInfo>;

fn run_lazily<A>(
    counting_adapter: CountingAdapter<A>,
    counters: std::rc::Rc<crate::wrappers::Counters>,
    iq: Arc<trustfall_core::ir::IndexedQuery>,
    args: Arc<BTreeMap<Arc<str>, trustfall_core::ir::FieldValue>>,
    prefix_len: usize,
    s_of: &[usize],
    ref_rows: &[String],
) -> LazyRun
where
    A: trustfall_core::interpreter::Adapter<'static, Vertex = crate::adapter::GV> + 'static,
{
    #[allow(clippy::arc_with_non_send_sync)]
    let adapter = Arc::new(counting_adapter);
    engine::catch(|| -> Result<Option<String>, String> {
        let mut iter = match interpret_ir(adapter.clone(), iq, args) {
            Ok(i) => i,
            Err(e) => return Err(format!("{e:?}")),
        };
        let (s0, o0) = counters.snapshot();
        if s0 != 0 || o0 != 0 {
            return Ok(Some(format!(
                "before the first row was requested the engine had already pulled {s0} starting vertices and {o0} other items"
            )));
        }
        let mut k = 0usize;
        let mut engine_rows: Vec<String> = vec![];
        while k < prefix_len {
            match iter.next() {
                None => break,
                Some(row) => {
                    engine_rows.push(canon_row(&engine::row_from_engine(&row)));
                    let (sp, _) = counters.snapshot();
                    if k < s_of.len() {
                        let allowed = (s_of[k] + 1) as u64;
                        if sp > allowed {
                            // only meaningful when the engine and the reference agree on the rows so far
                            if engine_rows[..] == ref_rows[..engine_rows.len().min(ref_rows.len())] {
                                return Ok(Some(format!(
                                    "after row {k} (contributed by starting vertex #{}), {sp} starting vertices had been pulled (allowed: {allowed})",
                                    s_of[k]
                                )));
                            }
                        }
                        if sp < allowed && engine_rows[..] == ref_rows[..engine_rows.len().min(ref_rows.len())] {
                            return Err(format!("HARNESS-SELF-CHECK: pulled {sp} < needed {allowed}"));
                        }
                    }
                    k += 1;
                }
            }
        }
        let before_drop = counters.snapshot();
        let calls_before = counters.calls.get();
        drop(iter);
        let after_drop = counters.snapshot();
        if before_drop != after_drop || calls_before != counters.calls.get() {
            return Ok(Some(format!(
                "dropping the result iterator after {k} rows caused further data access: {before_drop:?} -> {after_drop:?}"
            )));
        }
        if engine_rows[..] != ref_rows[..engine_rows.len().min(ref_rows.len())] || engine_rows.len() > ref_rows.len() {
            return Err("C01-DISAGREEMENT".into());
        }
        Ok(None)
    })
}

pub fn c03(ctx: &CheckCtx) -> i32 {
    let mut cfg = default_gen_config();
    cfg.data.max_vertices = 10;
    let mut tag_cfg = cfg.clone();
    tag_cfg.query.tag_bias = true;
    if ctx.replay.is_some() {
        return replay_with(ctx, &|sub, bytes| c03_case_with(bytes, &mut Stats::default(), false, if sub == "c03-hints" { &tag_cfg } else { &cfg }, sub == "c03-hints"));
    }
    let mut report = Report::new(
        ctx,
        "choice stream -> (prefix length, world); the engine runs over a strictly lazy adapter wrapped in a counter. \
         Checks: nothing pulled before the first next(); after row k at most s(k)+1 starting vertices pulled, where s(k) \
         comes from the reference evaluated per starting vertex; dropping the iterator freezes all counters. \
         Non-trivial: >= 2 starting vertices, >= 1 row requested, and the iterator dropped before the end or some starting \
         vertex contributing no row (so a read-ahead of the starting vertices would be visible); distinct by hash of (case, prefix). \
         The label strict_class counts the harder sub-class (>= 3 starts, one without rows, one with >= 2 rows, proper prefix).",
    );
    report.assume("adapters that read ahead are out of scope by the statement; GraphAdapter is one-in-one-out and lazy");
    let cases = ctx.cases(300_000, 3_000_000);
    let res = search(ctx, "c03", cases, WORLD_MIN_LEN, WORLD_MAX_LEN, |b, s, counting| c03_case(b, s, counting, &cfg));
    report.absorb(res, &|b| render_world_case(&b[1.min(b.len())..], &cfg));
    // the same bounds for a lazy adapter that asks for the engine's dynamic hints while resolving neighbours (tag-biased
    // worlds, so that there are dynamic hints to ask for): consulting hints must not make the engine pull anything early
    let cases = ctx.cases(150_000, 2_000_000);
    let res = search(ctx, "c03-hints", cases, WORLD_MIN_LEN, WORLD_MAX_LEN, |b, s, counting| c03_case_with(b, s, counting, &tag_cfg, true));
    report.absorb(res, &|b| render_world_case(&b[1.min(b.len())..], &tag_cfg));
    report.assume("the hint-consulting variant prunes neighbours by dynamic hints only (never starting vertices), and ignores the dynamic hints of `>=`-with-tag filters (listed C04 finding)");
    report.finish()
}

// ---------------------------------------------------------------------------------------------
// C05 + C21 (recorded call history)

pub struct Recorded {
    pub log: Vec<Call>,
    pub outcome: ExecOutcome,
}

pub fn run_recorded(case: &WorldCase, iq: Arc<trustfall_core::ir::IndexedQuery>) -> Recorded {
    let (rec, log) = RecordingAdapter::new(GraphAdapter::new(case.world.clone()));
    #[allow(clippy::arc_with_non_send_sync)]
    let outcome = engine::execute(Arc::new(rec), iq, engine::args_to_engine(&case.args), ROW_LIMIT * 2);
    let log = log.borrow().clone();
    Recorded { log, outcome }
}

/// classes of tag-induced property requests, for the C05 non-triviality rule
fn tag_request_classes(case: &WorldCase) -> Vec<&'static str> {
    let mut classes = vec![];
    fn go(n: &ANode, case: &WorldCase, classes: &mut Vec<&'static str>) {
        let mut filters: Vec<(&crate::query_ast::Filter, bool)> = vec![];
        for p in &n.props {
            for f in &p.filters {
                filters.push((f, false));
            }
        }
        if let Some(cs) = &n.count {
            for f in &cs.filters {
                filters.push((f, true));
            }
        }
        for (f, is_count_filter) in filters {
            if let Some(Arg::Tag(t)) = &f.arg {
                if let Some(TagDef::Prop { vid, .. }) = case.ann.tags.get(t) {
                    let comp_root = if is_count_filter {
                        // the count filter belongs to the parent component
                        n.path.get(n.path.len().saturating_sub(2)).copied().unwrap_or(1)
                    } else {
                        *n.path.last().unwrap()
                    };
                    if is_count_filter {
                        classes.push("tag_in_count_filter");
                    } else if *vid < comp_root {
                        classes.push("tag_imported_into_fold");
                    } else {
                        classes.push("tag_same_component");
                    }
                }
            }
        }
        for ch in &n.children {
            go(ch, case, classes);
        }
    }
    go(&case.ann.root, case, &mut classes);
    classes
}

pub fn c05_case(bytes: &[u8], stats: &mut Stats, counting: bool, cfg: &GenConfig) -> Verdict {
    let mut c = Choices::new(bytes);
    let case = decode_world_case(&mut c, cfg);
    let compiled = match compile_case(&case) {
        Ok(x) => x,
        Err(Verdict::Fail { .. }) => return Verdict::Discard("frontend-panic(C10)".into()),
        Err(v) => return v,
    };
    let rec = run_recorded(&case, compiled.iq.clone());
    if counting {
        label_case(stats, &case);
        let classes = tag_request_classes(&case);
        for cl in &classes {
            stats.label(cl);
        }
        let n_prop_calls = rec.log.iter().filter(|c| matches!(c.kind, CallKind::Property { .. })).count();
        stats.bump("resolve_property_calls", n_prop_calls as u64);
        if !classes.is_empty() && n_prop_calls > 0 && stats.nontrivial(&case.key()) {
            stats.sample(|| json!({"case": case.short_json(), "tag_classes": classes}));
        }
    }
    for call in &rec.log {
        if let CallKind::Property { type_name, prop } = &call.kind {
            if !call.required.iter().any(|r| r == prop) {
                // attribute: which use of this property is not covered?
                let class = classify_missing(&case, call.vid, prop);
                return Verdict::Fail {
                    sig: format!("c05:property-not-in-required-list|{class}"),
                    msg: format!(
                        "resolve_property({type_name}, {prop}) at Vid({}) but required_properties() = {:?}\nquery:\n{}",
                        call.vid, call.required, case.query_text
                    ),
                };
            }
        }
    }
    match rec.outcome {
        ExecOutcome::Panic(p, _) if p.in_harness() => Verdict::Discard("adapter-misuse(C21)".into()),
        _ => Verdict::Pass,
    }
}

/// why a property is requested at `vid`: output / filter / tag classes (used for finding signatures)
fn classify_missing(case: &WorldCase, vid: usize, prop: &str) -> String {
    let mut reasons: Vec<&'static str> = vec![];
    let mut node: Option<&ANode> = None;
    case.ann.root.walk(&mut |n| {
        if n.vid == vid {
            node = Some(n);
        }
    });
    if let Some(n) = node {
        if n.prop_outputs.iter().any(|o| o.prop == prop) {
            reasons.push("output");
        }
        if n.props.iter().any(|p| p.name == prop && !p.filters.is_empty()) {
            reasons.push("filter");
        }
    }
    // tag uses
    let tag_names: Vec<&String> = case
        .ann
        .tags
        .iter()
        .filter(|(_, d)| matches!(d, TagDef::Prop { vid: v, prop: p, .. } if *v == vid && p == prop))
        .map(|(k, _)| k)
        .collect();
    let def_path_root = node.map(|n| *n.path.last().unwrap()).unwrap_or(1);
    case.ann.root.walk(&mut |n| {
        for p in &n.props {
            for f in &p.filters {
                if let Some(Arg::Tag(t)) = &f.arg {
                    if tag_names.contains(&t) {
                        if *n.path.last().unwrap() == def_path_root {
                            reasons.push("tag-used-in-same-component");
                        } else {
                            reasons.push("tag-used-inside-fold");
                        }
                    }
                }
            }
        }
        if let Some(cs) = &n.count {
            for f in &cs.filters {
                if let Some(Arg::Tag(t)) = &f.arg {
                    if tag_names.contains(&t) {
                        reasons.push("tag-used-in-fold-count-filter");
                    }
                }
            }
        }
    });
    reasons.sort();
    reasons.dedup();
    reasons.join("+")
}

pub fn c05(ctx: &CheckCtx) -> i32 {
    let cfg = default_gen_config();
    if ctx.replay.is_some() {
        let mut tag_cfg = default_gen_config();
        tag_cfg.query.tag_bias = true;
        return replay_with(ctx, &|sub, bytes| c05_case(bytes, &mut Stats::default(), false, if sub == "c05-tags" { &tag_cfg } else { &cfg }));
    }
    let mut report = Report::new(
        ctx,
        "choice stream -> world; every resolve_property(type, p, info) call recorded during execution must have p in \
         info.required_properties() (invariant over the call history). Non-trivial: the query has a property request \
         that stems from a tag (same component / imported into a fold / operand of a fold-count filter) and at least one \
         resolve_property call happened; distinct by case hash.",
    );
    let cases = ctx.cases(100_000, 2_000_000);
    let res = search(ctx, "c05", cases, WORLD_MIN_LEN, WORLD_MAX_LEN, |b, s, counting| c05_case(b, s, counting, &cfg));
    report.absorb(res, &|b| render_world_case(b, &cfg));
    // tag-biased worlds (every operator with tag operands, several tag filters per property, fold-count tags)
    let mut tag_cfg = default_gen_config();
    tag_cfg.query.tag_bias = true;
    let cases = ctx.cases(60_000, 1_000_000);
    let res = search(ctx, "c05-tags", cases, WORLD_MIN_LEN, WORLD_MAX_LEN, |b, s, counting| c05_case(b, s, counting, &tag_cfg));
    report.absorb(res, &|b| render_world_case(b, &tag_cfg));
    report.finish()
}

// ---- C21 ----

fn check_params(
    case: &WorldCase,
    owner: &str,
    edge: &str,
    got: &BTreeMap<String, Value>,
    predicted: Option<&BTreeMap<String, Value>>,
) -> Option<String> {
    let schema = &case.world.schema;
    let Some(fd) = schema.field(owner, edge) else {
        return Some(format!("edge {edge} is not defined on {owner}"));
    };
    if !schema.is_edge(fd) {
        return Some(format!("{owner}.{edge} is a property, not an edge"));
    }
    let declared: Vec<&String> = fd.params.iter().map(|p| &p.name).collect();
    for k in got.keys() {
        if !declared.contains(&k) {
            return Some(format!("parameter {k} passed to {owner}.{edge} is not declared"));
        }
    }
    for p in &fd.params {
        match got.get(&p.name) {
            None => return Some(format!("declared parameter {} of {owner}.{edge} was not passed", p.name)),
            Some(v) => {
                if !p.ty.valid(v) {
                    return Some(format!(
                        "parameter {}={v:?} of {owner}.{edge} is not valid for declared type {}",
                        p.name,
                        p.ty.render()
                    ));
                }
            }
        }
    }
    if let Some(pred) = predicted {
        if pred != got {
            return Some(format!("parameters of {owner}.{edge} are {got:?} but the query and schema defaults give {pred:?}"));
        }
    }
    None
}

pub fn contract_violation(case: &WorldCase, log: &[Call]) -> Option<String> {
    let schema = &case.world.schema;
    let mut nodes: BTreeMap<usize, &ANode> = BTreeMap::new();
    case.ann.root.walk(&mut |n| {
        nodes.insert(n.vid, n);
    });
    for call in log {
        let ctx_ok = |type_name: &str| -> Option<String> {
            for v in call.contexts.iter().flatten() {
                let vt = &case.world.vertex(*v).ty;
                if !schema.is_subtype(type_name, vt) {
                    return Some(format!("active vertex {v} of type {vt} is not an instance of {type_name}"));
                }
            }
            None
        };
        match &call.kind {
            CallKind::Start { edge, params } => {
                if schema.field(&schema.root, edge).is_none() {
                    return Some(format!("starting edge {edge} is not defined on the root type"));
                }
                if let Some(m) = check_params(case, &schema.root, edge, params, Some(&case.ann.root.params)) {
                    return Some(m);
                }
            }
            CallKind::Property { type_name, prop } => {
                if !schema.is_vertex_type(type_name) || type_name == &schema.root {
                    return Some(format!("resolve_property on undefined/non-vertex type {type_name}"));
                }
                if prop != "__typename" {
                    match schema.field(type_name, prop) {
                        None => return Some(format!("property {prop} is not defined on {type_name}")),
                        Some(fd) if schema.is_edge(fd) => return Some(format!("{type_name}.{prop} is an edge, not a property")),
                        _ => {}
                    }
                }
                if let Some(m) = ctx_ok(type_name) {
                    return Some(format!("resolve_property({type_name}, {prop}): {m}"));
                }
            }
            CallKind::Neighbors { type_name, edge, params, dest_vid, .. } => {
                if !schema.is_vertex_type(type_name) || type_name == &schema.root {
                    return Some(format!("resolve_neighbors on undefined/non-vertex type {type_name}"));
                }
                let predicted = nodes.get(dest_vid).map(|n| &n.params);
                if let Some(m) = check_params(case, type_name, edge, params, predicted) {
                    return Some(m);
                }
                if let Some(n) = nodes.get(dest_vid) {
                    if &n.edge_name != edge {
                        return Some(format!("edge {edge} resolved for destination Vid({dest_vid}) whose query edge is {}", n.edge_name));
                    }
                }
                if let Some(m) = ctx_ok(type_name) {
                    return Some(format!("resolve_neighbors({type_name}, {edge}): {m}"));
                }
            }
            CallKind::Coercion { type_name, coerce_to } => {
                match schema.type_def(type_name) {
                    None => return Some(format!("resolve_coercion from undefined type {type_name}")),
                    Some(t) if !t.is_interface => return Some(format!("resolve_coercion from non-interface type {type_name}")),
                    _ => {}
                }
                if type_name == coerce_to || !schema.is_subtype(type_name, coerce_to) {
                    // attribution: is this the implicit coercion of a recursion whose edge originates in an
                    // interface unrelated to the edge target?
                    let mut sideways = false;
                    case.ann.root.walk(&mut |n| {
                        if n.recurse.is_some() {
                            if let Some(crate::query_ast::RecursionKind::SidewaysCoerceTo(x)) =
                                crate::query_ast::recursion_kind(schema, &n.from_type, &n.edge_name)
                            {
                                if &x == coerce_to && &n.pre_type == type_name {
                                    sideways = true;
                                }
                            }
                        }
                    });
                    if sideways {
                        return Some(format!("implicit-recursion-coercion-to-unrelated-interface: coercion target {coerce_to} is not a subtype of {type_name}"));
                    }
                    return Some(format!("coercion target {coerce_to} is not a strict subtype of {type_name}"));
                }
                if let Some(m) = ctx_ok(type_name) {
                    return Some(format!("resolve_coercion({type_name} -> {coerce_to}): {m}"));
                }
            }
        }
    }
    None
}

pub fn c21_case(bytes: &[u8], stats: &mut Stats, counting: bool, cfg: &GenConfig) -> Verdict {
    let mut c = Choices::new(bytes);
    let case = decode_world_case(&mut c, cfg);
    let compiled = match compile_case(&case) {
        Ok(x) => x,
        Err(Verdict::Fail { .. }) => return Verdict::Discard("frontend-panic(C10)".into()),
        Err(v) => return v,
    };
    let rec = run_recorded(&case, compiled.iq.clone());
    if counting {
        label_case(stats, &case);
        let none_ctx = rec.log.iter().any(|c| {
            matches!(c.kind, CallKind::Neighbors { .. }) && c.contexts.iter().any(|x| x.is_none())
        });
        let coercion_calls = rec.log.iter().filter(|c| matches!(c.kind, CallKind::Coercion { .. })).count();
        let mut implicit = false;
        case.ann.root.walk(&mut |n| {
            if n.recurse.is_some() && n.from_type != n.pre_type {
                implicit = true;
            }
        });
        if none_ctx {
            stats.label("edge_or_fold_expanded_from_missing_vertex");
        }
        if implicit {
            stats.label("recursion_from_subtype_of_edge_target");
        }
        if coercion_calls > 0 {
            stats.label("coercion_call");
        }
        stats.bump("adapter_calls", rec.log.len() as u64);
        let shape: Vec<String> = rec
            .log
            .iter()
            .map(|c| match &c.kind {
                CallKind::Start { edge, .. } => format!("S:{edge}"),
                CallKind::Property { type_name, prop } => format!("P:{type_name}.{prop}"),
                CallKind::Neighbors { type_name, edge, .. } => format!("N:{type_name}.{edge}"),
                CallKind::Coercion { type_name, coerce_to } => format!("C:{type_name}>{coerce_to}"),
            })
            .collect();
        if (none_ctx || implicit || (coercion_calls > 0 && case.features.recurse > 0)) && stats.nontrivial(format!("{}{shape:?}", case.sdl).as_bytes()) {
            stats.sample(|| json!({"case": case.short_json(), "call_shape": shape}));
        }
    }
    if let Some(m) = contract_violation(&case, &rec.log) {
        let kind: String = if m.starts_with("implicit-recursion-coercion-to-unrelated-interface") {
            "implicit-recursion-coercion-to-unrelated-interface".to_string()
        } else {
            m.split(' ').take(3).collect::<Vec<_>>().join("-")
        };
        return Verdict::Fail {
            sig: format!("c21:{kind}"),
            msg: format!("{m}\nquery:\n{}\nargs: {:?}", case.query_text, case.args),
        };
    }
    if let ExecOutcome::Panic(p, _) = &rec.outcome {
        if p.in_harness() {
            return Verdict::Fail {
                sig: format!("c21:adapter-could-not-answer|{}", first_line(&p.message)),
                msg: format!("the adapter was asked something it cannot answer: {}\n{}", p.render(), case.query_text),
            };
        }
    }
    Verdict::Pass
}

pub fn c21(ctx: &CheckCtx) -> i32 {
    let cfg = default_gen_config();
    let mut listed_cfg = default_gen_config();
    listed_cfg.query.allow_sideways_recursion = true;
    if ctx.replay.is_some() {
        return replay_with(ctx, &|sub, bytes| {
            let cfg = if sub == "c21-listed" { &listed_cfg } else { &cfg };
            c21_case(bytes, &mut Stats::default(), false, cfg)
        });
    }
    let mut report = Report::new(
        ctx,
        "choice stream -> world; every adapter call recorded during execution is checked against the schema AST and \
         dataset: type defined, property/edge defined on it (or __typename), coercion from an interface to a strict \
         subtype, parameter keys == declared names with valid values equal to explicit/default/null as the AST predicts, \
         every non-null active vertex an instance of the named type. Non-trivial: recursion starting from a subtype of \
         the edge target, a coercion call together with recursion, or an edge/fold expanded from a context without active \
         vertex; distinct by (schema, call-shape) hash.",
    );
    let cases = ctx.cases(300_000, 3_000_000);
    let res = search(ctx, "c21", cases, WORLD_MIN_LEN, WORLD_MAX_LEN, |b, s, counting| c21_case(b, s, counting, &cfg));
    report.absorb(res, &|b| render_world_case(b, &cfg));
    report.assume("the main search excludes recursions whose implicit coercion targets an interface unrelated to the edge target (listed finding); a second search includes them and tolerates exactly that signature");
    let cases = ctx.cases(20_000, 400_000);
    let res = search(ctx, "c21-listed", cases, WORLD_MIN_LEN, WORLD_MAX_LEN, |b, s, counting| {
        let mut scratch = Stats::default();
        let v = c21_case(b, &mut scratch, counting, &listed_cfg);
        if counting {
            s.bump("cases_in_search_including_listed_findings", 1);
        }
        v
    });
    report.absorb(res, &|b| render_world_case(b, &listed_cfg));
    report.finish()
}
