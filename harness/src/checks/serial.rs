//! C16: IR, values and types survive serialization round-trips.

use serde_json::json;
use trustfall_core::ir::{FieldValue, IRQuery, IndexedQuery, TransparentValue, Type};

use crate::checks::fieldvalue::{gen_fv, FvGen};
use crate::checks::world::{default_gen_config, WORLD_MAX_LEN, WORLD_MIN_LEN};
use crate::checks::{replay_with, Report};
use crate::choice::Choices;
use crate::engine;
use crate::runner::{search, CheckCtx, Stats, Verdict};
use crate::values::Ty;
use crate::worldcase::{compile_case, decode_world_case, GenConfig};

/// bit-exact comparison (floats by bit pattern except +-0, ints by encoding-insensitive equality as `==` defines it)
fn same_value(a: &FieldValue, b: &FieldValue) -> bool {
    match (a, b) {
        (FieldValue::Float64(x), FieldValue::Float64(y)) => x == y && (x.to_bits() == y.to_bits() || *x == 0.0),
        (FieldValue::List(x), FieldValue::List(y)) => x.len() == y.len() && x.iter().zip(y.iter()).all(|(p, q)| same_value(p, q)),
        (FieldValue::Float64(_), _) | (_, FieldValue::Float64(_)) => false,
        _ => a == b,
    }
}

fn has_enum(v: &FieldValue) -> bool {
    match v {
        FieldValue::Enum(_) => true,
        FieldValue::List(l) => l.iter().any(has_enum),
        _ => false,
    }
}

fn has_long_float(v: &FieldValue) -> bool {
    match v {
        FieldValue::Float64(f) => format!("{f:?}").trim_start_matches('-').replace(['.', 'e', '-'], "").len() >= 16,
        FieldValue::List(l) => l.iter().any(has_long_float),
        _ => false,
    }
}

fn nesting(v: &FieldValue) -> usize {
    match v {
        FieldValue::List(l) => 1 + l.iter().map(nesting).max().unwrap_or(0),
        _ => 0,
    }
}

fn has_big_int(v: &FieldValue) -> bool {
    match v {
        FieldValue::Uint64(u) => *u > i64::MAX as u64,
        FieldValue::List(l) => l.iter().any(has_big_int),
        _ => false,
    }
}

pub fn c16_value_case(bytes: &[u8], stats: &mut Stats, counting: bool, allow_enum_untagged: bool, allow_json_floats: bool) -> Verdict {
    let mut c = Choices::new(bytes);
    let v = gen_fv(&mut c, FvGen { enums: true, max_depth: 3 }, 0);
    if counting {
        if (has_long_float(&v) || has_big_int(&v) || nesting(&v) >= 2) && stats.nontrivial(format!("{v:?}").as_bytes()) {
            stats.sample(|| json!(format!("{v:?}")));
        }
    }
    let r = engine::catch(|| -> Option<(String, String)> {
        // RON
        match ron::to_string(&v) {
            Err(e) => return Some(("ron-serialize-failed".into(), format!("{e} for {v:?}"))),
            Ok(text) => match ron::from_str::<FieldValue>(&text) {
                Err(e) => return Some(("ron-deserialize-failed".into(), format!("{e} for {v:?} as `{text}`"))),
                Ok(back) => {
                    if !same_value(&back, &v) {
                        return Some(("ron-roundtrip-changed-value".into(), format!("{v:?} -> `{text}` -> {back:?}")));
                    }
                }
            },
        }
        // JSON (tagged)
        match serde_json::to_string(&v) {
            Err(e) => return Some(("json-serialize-failed".into(), format!("{e} for {v:?}"))),
            Ok(text) => match serde_json::from_str::<FieldValue>(&text) {
                Err(e) => return Some(("json-deserialize-failed".into(), format!("{e} for {v:?} as `{text}`"))),
                Ok(back) => {
                    if !same_value(&back, &v) {
                        let float_only = back == v || !allow_json_floats;
                        let _ = float_only;
                        return Some((
                            if has_long_float(&v) { "json-roundtrip-changed-float".into() } else { "json-roundtrip-changed-value".into() },
                            format!("{v:?} -> `{text}` -> {back:?}"),
                        ));
                    }
                }
            },
        }
        // the untagged form itself (no text in between): conversion there and back preserves every value, enums included
        {
            let t: TransparentValue = v.clone().into();
            let back: FieldValue = t.into();
            if !same_value(&back, &v) {
                return Some(("untagged-conversion-changed-value".into(), format!("{v:?} -> TransparentValue -> {back:?}")));
            }
        }
        // untagged JSON form and back
        if !has_enum(&v) || allow_enum_untagged {
            let t: TransparentValue = v.clone().into();
            match serde_json::to_string(&t) {
                Err(e) => return Some(("untagged-serialize-failed".into(), format!("{e} for {v:?}"))),
                Ok(text) => match serde_json::from_str::<TransparentValue>(&text) {
                    Err(e) => return Some(("untagged-deserialize-failed".into(), format!("{e} for {v:?} as `{text}`"))),
                    Ok(back) => {
                        let back: FieldValue = back.into();
                        if !same_value(&back, &v) {
                            let kind = if has_enum(&v) {
                                "untagged-roundtrip-changed-enum"
                            } else if has_long_float(&v) {
                                "untagged-roundtrip-changed-float"
                            } else {
                                "untagged-roundtrip-changed-value"
                            };
                            return Some((kind.into(), format!("{v:?} -> `{text}` -> {back:?}")));
                        }
                    }
                },
            }
        }
        None
    });
    match r {
        Ok(None) => Verdict::Pass,
        Ok(Some((k, m))) => Verdict::Fail { sig: format!("c16:value:{k}"), msg: m },
        Err(p) => Verdict::Fail { sig: format!("c16:value:panic|{}", p.file()), msg: format!("{} on {v:?}", p.render()) },
    }
}

fn gen_ty(c: &mut Choices<'_>) -> Ty {
    let base = ["Int", "String", "Float", "Boolean", "ID", "Custom_Name", "T0", "__typename_like"][c.below(8)];
    let depth = match c.below(10) {
        0 => 30,
        1 => 29,
        2 => 4 + c.below(20),
        _ => c.below(4),
    };
    Ty { base: base.to_string(), nulls: (0..=depth).map(|_| c.chance(128)).collect() }
}

pub fn c16_type_case(bytes: &[u8], stats: &mut Stats, counting: bool) -> Verdict {
    let mut c = Choices::new(bytes);
    let ty = gen_ty(&mut c);
    let text = ty.render();
    if counting && ty.depth() >= 3 && stats.nontrivial(text.as_bytes()) {
        stats.sample(|| json!(text));
    }
    let r = engine::catch(|| -> Option<(String, String)> {
        let t = match Type::parse(&text) {
            Ok(t) => t,
            Err(e) => return Some(("type-parse-failed".into(), format!("{e} for `{text}`"))),
        };
        let shown = t.to_string();
        if shown != text {
            return Some(("type-display-differs".into(), format!("`{text}` displayed as `{shown}`")));
        }
        match Type::parse(&shown) {
            Ok(t2) if t2 == t => {}
            other => return Some(("type-parse-display-roundtrip".into(), format!("`{text}` -> {other:?}"))),
        }
        // structure agrees with the model
        if t.nullable() != ty.nullable() || t.is_list() != ty.is_list() || t.base_type() != ty.base {
            return Some(("type-structure-differs".into(), format!("`{text}`")));
        }
        let mut cur = Some(t.clone());
        let mut level = 0;
        while let Some(x) = cur {
            if x.nullable() != ty.nulls[level] {
                return Some(("type-structure-differs".into(), format!("`{text}` at level {level}")));
            }
            cur = x.as_list();
            level += 1;
        }
        if level != ty.nulls.len() {
            return Some(("type-structure-differs".into(), format!("`{text}` has {level} levels")));
        }
        for (fmt, ser, de) in [
            ("ron", ron::to_string(&t).map_err(|e| e.to_string()), None::<()>),
            ("json", serde_json::to_string(&t).map_err(|e| e.to_string()), None),
        ] {
            let _ = de;
            let s = match ser {
                Ok(s) => s,
                Err(e) => return Some((format!("type-{fmt}-serialize-failed"), format!("{e} for `{text}`"))),
            };
            let back: Result<Type, String> =
                if fmt == "ron" { ron::from_str(&s).map_err(|e| e.to_string()) } else { serde_json::from_str(&s).map_err(|e| e.to_string()) };
            match back {
                Ok(b) if b == t => {}
                other => return Some((format!("type-{fmt}-roundtrip"), format!("`{text}` -> `{s}` -> {other:?}"))),
            }
        }
        // types derived through the public constructors *after* the base type has been rendered and serialized
        // round-trip as well, and render as the model says
        let flip = t.with_nullability(!t.nullable());
        let mut flipped = ty.clone();
        flipped.nulls[0] = !flipped.nulls[0];
        let mut derived: Vec<(&str, Type, String)> = vec![("with_nullability", flip, flipped.render())];
        if ty.nulls.len() < 30 {
            for outer in [true, false] {
                let mut m = ty.clone();
                m.nulls.insert(0, outer);
                derived.push(("new_list_type", Type::new_list_type(t.clone(), outer), m.render()));
            }
        }
        if let Some(inner) = t.as_list() {
            let mut m = ty.clone();
            m.nulls.remove(0);
            let text_inner = m.render();
            m.nulls[0] = !m.nulls[0];
            derived.push(("as_list+with_nullability", inner.with_nullability(!inner.nullable()), m.render()));
            derived.push(("as_list", inner, text_inner));
        }
        for (how, d, want_text) in derived {
            let shown = d.to_string();
            if shown != want_text {
                return Some((format!("derived-type-display-differs|{how}"), format!("`{text}` --{how}--> displayed as `{shown}`, expected `{want_text}`")));
            }
            match Type::parse(&shown) {
                Ok(d2) if d2 == d && d2.nullable() == d.nullable() => {}
                other => return Some((format!("derived-type-parse-display-roundtrip|{how}"), format!("`{text}` --{how}--> `{shown}` -> {other:?}"))),
            }
            let js = match serde_json::to_string(&d) {
                Ok(s) => s,
                Err(e) => return Some((format!("derived-type-json-serialize-failed|{how}"), e.to_string())),
            };
            match serde_json::from_str::<Type>(&js) {
                Ok(d2) if d2 == d && d2.to_string() == want_text => {}
                other => return Some((format!("derived-type-json-roundtrip|{how}"), format!("`{text}` --{how}--> `{js}` -> {other:?}"))),
            }
        }
        None
    });
    match r {
        Ok(None) => Verdict::Pass,
        Ok(Some((k, m))) => Verdict::Fail { sig: format!("c16:type:{k}"), msg: m },
        Err(p) => Verdict::Fail { sig: format!("c16:type:panic|{}", p.file()), msg: format!("{} on `{text}`", p.render()) },
    }
}

pub fn c16_ir_case(bytes: &[u8], stats: &mut Stats, counting: bool, cfg: &GenConfig) -> Verdict {
    let mut c = Choices::new(bytes);
    let case = decode_world_case(&mut c, cfg);
    let compiled = match compile_case(&case) {
        Ok(x) => x,
        Err(Verdict::Fail { .. }) => return Verdict::Discard("frontend-panic(C10)".into()),
        Err(v) => return v,
    };
    if counting && case.features.fold > 0 && stats.nontrivial(case.query_text.as_bytes()) {
        stats.sample(|| json!({"query": case.query_text}));
    }
    let iq: &IndexedQuery = &compiled.iq;
    let r = engine::catch(|| -> Option<(String, String)> {
        let s = match ron::to_string(&iq.ir_query) {
            Ok(s) => s,
            Err(e) => return Some(("ir-ron-serialize-failed".into(), e.to_string())),
        };
        match ron::from_str::<IRQuery>(&s) {
            Ok(b) if b == iq.ir_query => {}
            Ok(_) => return Some(("ir-ron-roundtrip-changed".into(), s)),
            Err(e) => return Some(("ir-ron-deserialize-failed".into(), format!("{e}\n{s}"))),
        }
        let s = match serde_json::to_string(&iq.ir_query) {
            Ok(s) => s,
            Err(e) => return Some(("ir-json-serialize-failed".into(), e.to_string())),
        };
        match serde_json::from_str::<IRQuery>(&s) {
            Ok(b) if b == iq.ir_query => {}
            Ok(_) => return Some(("ir-json-roundtrip-changed".into(), s)),
            Err(e) => return Some(("ir-json-deserialize-failed".into(), format!("{e}\n{s}"))),
        }
        let s = match ron::to_string(iq) {
            Ok(s) => s,
            Err(e) => return Some(("indexed-ron-serialize-failed".into(), e.to_string())),
        };
        match ron::from_str::<IndexedQuery>(&s) {
            Ok(b) if &b == iq => {}
            Ok(_) => return Some(("indexed-ron-roundtrip-changed".into(), s)),
            Err(e) => return Some(("indexed-ron-deserialize-failed".into(), format!("{e}\n{s}"))),
        }
        let s = match serde_json::to_string(iq) {
            Ok(s) => s,
            Err(e) => return Some(("indexed-json-serialize-failed".into(), e.to_string())),
        };
        match serde_json::from_str::<IndexedQuery>(&s) {
            Ok(b) if &b == iq => {}
            Ok(_) => return Some(("indexed-json-roundtrip-changed".into(), s)),
            Err(e) => return Some(("indexed-json-deserialize-failed".into(), format!("{e}\n{s}"))),
        }
        // a compiled query rebuilt from its own IR is the same compiled query
        // ... and, built from an IR that has already been rendered and serialized above (so anything the values cache
        // about their own text is filled in), it still serializes to something that reads back as the same query
        match IndexedQuery::try_from(iq.ir_query.clone()) {
            Ok(b) if &b == iq => {
                let s2 = match ron::to_string(&b) {
                    Ok(s) => s,
                    Err(e) => return Some(("rebuilt-indexed-ron-serialize-failed".into(), e.to_string())),
                };
                match ron::from_str::<IndexedQuery>(&s2) {
                    Ok(b2) if &b2 == iq => {}
                    Ok(_) => return Some(("rebuilt-indexed-ron-roundtrip-changed".into(), s2)),
                    Err(e) => return Some(("rebuilt-indexed-ron-deserialize-failed".into(), format!("{e}\n{s2}"))),
                }
                let s2 = match serde_json::to_string(&b) {
                    Ok(s) => s,
                    Err(e) => return Some(("rebuilt-indexed-json-serialize-failed".into(), e.to_string())),
                };
                match serde_json::from_str::<IndexedQuery>(&s2) {
                    Ok(b2) if &b2 == iq => {}
                    Ok(_) => return Some(("rebuilt-indexed-json-roundtrip-changed".into(), s2)),
                    Err(e) => return Some(("rebuilt-indexed-json-deserialize-failed".into(), format!("{e}\n{s2}"))),
                }
            }
            other => return Some(("indexed-rebuild-differs".into(), format!("{other:?}"))),
        }
        None
    });
    match r {
        Ok(None) => Verdict::Pass,
        Ok(Some((k, m))) => Verdict::Fail {
            sig: format!("c16:ir:{k}"),
            msg: format!("{}\nquery:\n{}", m.chars().take(1500).collect::<String>(), case.query_text),
        },
        Err(p) => Verdict::Fail { sig: format!("c16:ir:panic|{}", p.file()), msg: format!("{}\nquery:\n{}", p.render(), case.query_text) },
    }
}

pub fn c16(ctx: &CheckCtx) -> i32 {
    let cfg = default_gen_config();
    if ctx.replay.is_some() {
        return replay_with(ctx, &|sub, b| match sub {
            "c16-type" => c16_type_case(b, &mut Stats::default(), false),
            "c16-ir" => c16_ir_case(b, &mut Stats::default(), false, &cfg),
            "c16-value-listed" => c16_value_case(b, &mut Stats::default(), false, true, true),
            _ => c16_value_case(b, &mut Stats::default(), false, false, true),
        });
    }
    let mut report = Report::new(
        ctx,
        "choice streams -> (a) field values of every variant (finite floats from random bit patterns incl. subnormals and \
         extremes, integers at all boundaries in both encodings, enums, nested lists up to depth 3): RON and tagged-JSON \
         round trips must return an equal value (floats compared bit-exactly, +-0 exempt) and the untagged JSON form \
         (TransparentValue) must convert back to an equal value; (b) types over 8 base names, list depth 0-30, every \
         nullability pattern: Type::parse(render) displays identically, has the modelled structure, and survives RON/JSON; \
         (c) compiled queries from generated worlds: IRQuery and IndexedQuery survive RON and JSON and rebuilding from the IR. \
         Non-trivial: value with a >=16-digit float, an integer beyond i64 or nesting >= 2; type of depth >= 3; IR with a fold.",
    );
    report.assume("enum values are excluded from the untagged-JSON sub-check in the main search (listed finding: untagged enums read back as strings) and covered by a second search that tolerates exactly that signature");
    let cases = ctx.cases(3_000_000, 50_000_000);
    let res = search(ctx, "c16-value", cases, 8, 120, |b, s, k| c16_value_case(b, s, k, false, true));
    report.absorb(res, &|b| json!({"value": format!("{:?}", gen_fv(&mut Choices::new(b), FvGen { enums: true, max_depth: 3 }, 0))}));
    let cases = ctx.cases(300_000, 3_000_000);
    let res = search(ctx, "c16-value-listed", cases, 8, 120, |b, s, k| {
        let mut scratch = Stats::default();
        let v = c16_value_case(b, &mut scratch, k, true, true);
        if k {
            s.bump("cases_in_search_including_listed_findings", 1);
        }
        v
    });
    report.absorb(res, &|b| json!({"value": format!("{:?}", gen_fv(&mut Choices::new(b), FvGen { enums: true, max_depth: 3 }, 0))}));
    let cases = ctx.cases(1_000_000, 10_000_000);
    let res = search(ctx, "c16-type", cases, 4, 64, c16_type_case);
    report.absorb(res, &|b| json!({"type": gen_ty(&mut Choices::new(b)).render()}));
    let cases = ctx.cases(150_000, 2_000_000);
    let res = search(ctx, "c16-ir", cases, WORLD_MIN_LEN, WORLD_MAX_LEN, |b, s, k| c16_ir_case(b, s, k, &cfg));
    report.absorb(res, &|b| crate::checks::world::render_world_case(b, &cfg));
    report.finish()
}
