//! C07: filter operators decide exactly their definition (direct, via hooks, and end-to-end through the engine).
#![cfg(feature = "hooks")]

use std::{collections::BTreeMap, sync::Arc};

use serde_json::json;
use trustfall_core::{interpreter::verif_hooks as fh, ir::FieldValue};

use crate::adapter::GraphAdapter;
use crate::checks::fieldvalue::{gen_float, int_encodings, INT_BOUNDARY, STRINGS};
use crate::checks::{replay_with, Report};
use crate::choice::Choices;
use crate::data::{Dataset, VertexData, World};
use crate::engine::{self, ExecOutcome};
use crate::query_ast::{annotate, Arg, EdgeSel, Filter, PropSel, Query, Sel, INVALID_REGEX_POOL};
use crate::runner::{search, CheckCtx, Stats, Verdict};
use crate::schema_ast::{FieldDef, SchemaDoc, TypeDef};
use crate::values::{apply_op, Op, Ty, Value, ALL_OPS};
use crate::worldcase::first_line;

const REGEXES: [&str; 12] = ["a", "^a", "b$", "a.c", "^$", "a*b", "(a|b)+", "[a-b]+$", "^a?b", ".", "", "^(ab|ä)$"];

fn engine_op(op: Op, l: &FieldValue, r: &FieldValue) -> bool {
    match op {
        Op::IsNull => matches!(l, FieldValue::Null),
        Op::IsNotNull => !matches!(l, FieldValue::Null),
        Op::Eq => fh::equals(l, r),
        Op::Ne => !fh::equals(l, r),
        Op::Lt => fh::less_than(l, r),
        Op::Le => fh::less_than_or_equal(l, r),
        Op::Gt => fh::greater_than(l, r),
        Op::Ge => fh::greater_than_or_equal(l, r),
        Op::Contains => fh::contains(l, r),
        Op::NotContains => !fh::contains(l, r),
        Op::OneOf => fh::one_of(l, r),
        Op::NotOneOf => !fh::one_of(l, r),
        Op::HasPrefix => fh::has_prefix(l, r),
        Op::NotHasPrefix => !fh::has_prefix(l, r),
        Op::HasSuffix => fh::has_suffix(l, r),
        Op::NotHasSuffix => !fh::has_suffix(l, r),
        Op::HasSubstring => fh::has_substring(l, r),
        Op::NotHasSubstring => !fh::has_substring(l, r),
        Op::Regex => fh::regex_matches_slow_path(l, r),
        Op::NotRegex => !fh::regex_matches_slow_path(l, r),
    }
}

fn gen_scalar_kind(c: &mut Choices<'_>, kind: usize) -> Value {
    match kind {
        0 => {
            let fv = crate::checks::fieldvalue::gen_int_fv(c);
            Value::from_field_value(&fv)
        }
        1 => Value::Float(gen_float(c)),
        _ => Value::str(STRINGS[c.below(STRINGS.len())]),
    }
}

fn derive_near(c: &mut Choices<'_>, v: &Value, kind: usize) -> Value {
    match (c.below(4), v) {
        (0, _) => v.clone(),
        (1, Value::Int { v: i, unsigned }) => Value::Int { v: *i, unsigned: !*unsigned },
        (2, Value::Int { v: i, .. }) => {
            let n = i + [-1i128, 1][c.below(2)];
            if n >= i64::MIN as i128 && n <= u64::MAX as i128 { Value::int(n) } else { v.clone() }
        }
        (1, Value::Str(s)) => Value::Str(s.chars().take(c.below(s.chars().count() + 1)).collect()),
        (2, Value::Str(s)) => Value::Str(s.chars().skip(c.below(s.chars().count() + 1)).collect()),
        _ => gen_scalar_kind(c, kind),
    }
}

/// (op, left, right) within the operand kinds the frontend admits
fn gen_direct(c: &mut Choices<'_>) -> (Op, Value, Value) {
    let kind = c.below(3); // 0 int, 1 float, 2 string
    let null_l = c.chance(24);
    let null_r = c.chance(24);
    let family = c.below(6);
    match family {
        0 | 1 => {
            // equality / ordering on scalars
            let op = [Op::Eq, Op::Ne, Op::Lt, Op::Le, Op::Gt, Op::Ge][c.below(6)];
            let l = gen_scalar_kind(c, kind);
            let r = derive_near(c, &l, kind);
            (op, if null_l { Value::Null } else { l }, if null_r { Value::Null } else { r })
        }
        2 => {
            // equality on lists (nested)
            let op = [Op::Eq, Op::Ne][c.below(2)];
            let n = c.below(4);
            let l: Vec<Value> = (0..n).map(|_| if c.chance(30) { Value::Null } else { gen_scalar_kind(c, kind) }).collect();
            let r: Vec<Value> = if c.chance(128) {
                l.iter().map(|v| derive_near(c, v, kind)).collect()
            } else {
                (0..c.below(4)).map(|_| gen_scalar_kind(c, kind)).collect()
            };
            (op, if null_l { Value::Null } else { Value::List(l) }, if null_r { Value::Null } else { Value::List(r) })
        }
        3 => {
            let op = [Op::OneOf, Op::NotOneOf][c.below(2)];
            let l = gen_scalar_kind(c, kind);
            let n = c.below(4);
            let mut items: Vec<Value> = (0..n).map(|_| if c.chance(30) { Value::Null } else { derive_near(c, &l, kind) }).collect();
            if c.chance(60) {
                items.push(l.clone());
            }
            (op, if null_l { Value::Null } else { l }, if null_r { Value::Null } else { Value::List(items) })
        }
        4 => {
            let op = [Op::Contains, Op::NotContains][c.below(2)];
            let r = gen_scalar_kind(c, kind);
            let n = c.below(4);
            let items: Vec<Value> = (0..n).map(|_| if c.chance(30) { Value::Null } else { derive_near(c, &r, kind) }).collect();
            (op, if null_l { Value::Null } else { Value::List(items) }, if null_r { Value::Null } else { r })
        }
        _ => {
            let op = [
                Op::HasPrefix,
                Op::NotHasPrefix,
                Op::HasSuffix,
                Op::NotHasSuffix,
                Op::HasSubstring,
                Op::NotHasSubstring,
                Op::Regex,
                Op::NotRegex,
            ][c.below(8)];
            let l = Value::str(STRINGS[c.below(STRINGS.len())]);
            let r = if matches!(op, Op::Regex | Op::NotRegex) {
                if c.chance(40) {
                    Value::str(INVALID_REGEX_POOL[c.below(INVALID_REGEX_POOL.len())])
                } else {
                    Value::str(REGEXES[c.below(REGEXES.len())])
                }
            } else {
                derive_near(c, &l, 2)
            };
            (op, if null_l { Value::Null } else { l }, if null_r { Value::Null } else { r })
        }
    }
}

fn interesting(l: &Value, r: &Value) -> bool {
    let big = |v: &Value| matches!(v, Value::Int { v, .. } if *v > i64::MAX as i128);
    let enc = |v: &Value| matches!(v, Value::Int { unsigned: true, .. });
    match (l, r) {
        (Value::Null, _) | (_, Value::Null) => true,
        (Value::Int { .. }, Value::Int { .. }) => big(l) || big(r) || enc(l) != enc(r),
        (Value::Str(a), Value::Str(b)) => !a.is_empty() && !b.is_empty() && a != b && (a.contains(b.as_str()) || b.contains(a.as_str())),
        (Value::List(a), _) => a.iter().any(|x| interesting(x, r)),
        (_, Value::List(b)) => b.iter().any(|x| interesting(l, x)),
        _ => false,
    }
}

fn direct_violation(op: Op, l: &Value, r: &Value) -> Option<(String, String)> {
    let (fl, fr) = (l.to_field_value(), r.to_field_value());
    let want = apply_op(op, l, r)?;
    let got = engine_op(op, &fl, &fr);
    if got != want {
        return Some((format!("operator-result-differs|{}", op.name()), format!("{fl:?} {} {fr:?}: engine {got}, definition {want}", op.name())));
    }
    if let Some(neg) = op.negation() {
        let ngot = engine_op(neg, &fl, &fr);
        if ngot == got {
            return Some((format!("negation-not-complement|{}", op.name()), format!("{fl:?} {} / {} {fr:?} both give {got}", op.name(), neg.name())));
        }
    }
    None
}

/// Membership over *lists of lists* ("lists of these" in the property's quantifier): every member of a `one_of` /
/// `contains` pair is wrapped into a list behind a shared prefix whose integers are re-encoded at random (Int64 vs
/// Uint64), so membership has to compare nested lists by numeric value too. Decoded from the choices that follow the
/// pair, so the pair itself is decoded exactly as before.
fn lift_membership(c: &mut Choices<'_>, op: Op, l: Value, r: Value) -> (Value, Value) {
    let pre: Vec<Value> = (0..c.below(3)).map(|_| gen_scalar_kind(c, 0)).collect();
    fn reencode(c: &mut Choices<'_>, v: &Value) -> Value {
        match v {
            Value::Int { v: i, unsigned } if c.chance(128) => Value::Int { v: *i, unsigned: !*unsigned },
            _ => v.clone(),
        }
    }
    let wrap = |c: &mut Choices<'_>, x: &Value, same: bool| -> Value {
        let mut items: Vec<Value> = pre.iter().map(|p| if same { p.clone() } else { reencode(c, p) }).collect();
        items.push(x.clone());
        Value::List(items)
    };
    match (op, &l, &r) {
        (Op::OneOf | Op::NotOneOf, l0, Value::List(items)) if !matches!(l0, Value::Null) => {
            let nl = wrap(c, l0, true);
            let nr = Value::List(items.iter().map(|x| wrap(c, x, false)).collect());
            (nl, nr)
        }
        (Op::Contains | Op::NotContains, Value::List(items), r0) if !matches!(r0, Value::Null) => {
            let nr = wrap(c, r0, true);
            let nl = Value::List(items.iter().map(|x| wrap(c, x, false)).collect());
            (nl, nr)
        }
        _ => (l, r),
    }
}

pub fn c07_direct_case(bytes: &[u8], stats: &mut Stats, counting: bool) -> Verdict {
    let mut c = Choices::new(bytes);
    let (op, l, r) = gen_direct(&mut c);
    let lifted = matches!(op, Op::OneOf | Op::NotOneOf | Op::Contains | Op::NotContains) && c.chance(64);
    let (l, r) = if lifted { lift_membership(&mut c, op, l, r) } else { (l, r) };
    if counting && lifted {
        stats.label("membership_over_lists_of_lists");
    }
    if counting {
        stats.label(&format!("op:{}", op.name()));
        if interesting(&l, &r) && stats.nontrivial(format!("{}{l:?}{r:?}", op.name()).as_bytes()) {
            stats.sample(|| json!({"op": op.name(), "left": l.to_json(), "right": r.to_json()}));
        }
    }
    match engine::catch(|| direct_violation(op, &l, &r)) {
        Ok(None) => Verdict::Pass,
        Ok(Some((k, m))) => Verdict::Fail { sig: format!("c07:{k}"), msg: m },
        Err(p) => Verdict::Fail {
            sig: format!("c07:operator-panicked|{}|{}", op.name(), p.file()),
            msg: format!("{} on {l:?} {} {r:?}", p.render(), op.name()),
        },
    }
}

// ---- end-to-end ----

fn e2e_schema() -> SchemaDoc {
    let p = |n: &str, t: &str| FieldDef { name: n.into(), ty: Ty::parse(t).unwrap(), params: vec![], doc: None };
    let fields = vec![
        p("i", "Int"),
        p("i2", "Int"),
        p("f", "Float"),
        p("f2", "Float"),
        p("s", "String"),
        p("s2", "String"),
        p("li", "[Int]"),
        p("li2", "[Int]"),
        p("ls", "[String]"),
        p("ls2", "[String]"),
        p("lf", "[Float]"),
        p("lf2", "[Float]"),
        FieldDef { name: "next".into(), ty: Ty::parse("[T!]").unwrap(), params: vec![], doc: None },
    ];
    let t = TypeDef { name: "T".into(), is_interface: false, implements: vec![], fields, doc: None };
    let root = TypeDef {
        name: "RootQ".into(),
        is_interface: false,
        implements: vec![],
        fields: vec![FieldDef { name: "Start".into(), ty: Ty::parse("[T!]").unwrap(), params: vec![], doc: None }],
        doc: None,
    };
    SchemaDoc {
        root: "RootQ".into(),
        types: vec![t, root],
        scalars: vec![],
        extra_directives: vec![],
        include_directives: true,
        schema_blocks: vec!["RootQ".into()],
        sem: BTreeMap::new(),
    }
}

/// property names holding (left, right-as-tag) for an operand pair
fn e2e_props(op: Op, l: &Value, r: &Value) -> Option<(&'static str, &'static str)> {
    let kind = |v: &Value| -> Option<char> {
        match v {
            Value::Int { .. } => Some('i'),
            Value::Float(_) => Some('f'),
            Value::Str(_) => Some('s'),
            Value::List(items) => items.iter().find_map(|x| match x {
                Value::Int { .. } => Some('i'),
                Value::Float(_) => Some('f'),
                Value::Str(_) => Some('s'),
                _ => None,
            }),
            _ => None,
        }
    };
    let k = kind(l).or(kind(r)).unwrap_or('i');
    Some(match op {
        Op::Contains | Op::NotContains => match k {
            'i' => ("li", "i2"),
            'f' => ("lf", "f2"),
            _ => ("ls", "s2"),
        },
        Op::OneOf | Op::NotOneOf => match k {
            'i' => ("i", "li2"),
            'f' => ("f", "lf2"),
            _ => ("s", "ls2"),
        },
        Op::Eq | Op::Ne if matches!(l, Value::List(_)) || matches!(r, Value::List(_)) => match k {
            'i' => ("li", "li2"),
            'f' => ("lf", "lf2"),
            _ => ("ls", "ls2"),
        },
        _ if op.is_string_op() => ("s", "s2"),
        _ => match k {
            'i' => ("i", "i2"),
            'f' => ("f", "f2"),
            _ => ("s", "s2"),
        },
    })
}

pub fn c07_e2e_case(bytes: &[u8], stats: &mut Stats, counting: bool) -> Verdict {
    let mut c = Choices::new(bytes);
    let (op, l, r) = gen_direct(&mut c);
    let mode = c.below(3); // 0 variable, 1 tag on the same vertex, 2 tag on the previous vertex
    let Some((lp, rp)) = e2e_props(op, &l, &r) else { return Verdict::Discard("no-props".into()) };
    let schema = e2e_schema();
    let lty = schema.field("T", lp).unwrap().ty.clone();
    let rty = schema.field("T", rp).unwrap().ty.clone();
    if !lty.valid(&l) || !rty.valid(&r) {
        return Verdict::Discard("operands-do-not-fit-fixed-schema".into());
    }
    // variables cannot be null for ordering / string / one_of operators, and an invalid regex variable is a listed C09 finding
    if mode == 0 {
        let vt = crate::query_ast::infer_var_type(op, &lty).unwrap();
        if !vt.valid(&r) {
            return Verdict::Discard("right-operand-invalid-for-variable".into());
        }
        if matches!(op, Op::Regex | Op::NotRegex) {
            if let Value::Str(s) = &r {
                if INVALID_REGEX_POOL.contains(&s.as_str()) {
                    return Verdict::Discard("invalid-regex-variable(listed C09 finding)".into());
                }
            }
        }
    }
    let mk_vertex = |l: Option<&Value>, r: Option<&Value>| {
        let mut props: BTreeMap<String, Value> = schema.properties("T").iter().map(|p| (p.name.clone(), Value::Null)).collect();
        if let Some(l) = l {
            props.insert(lp.to_string(), l.clone());
        }
        if let Some(r) = r {
            props.insert(rp.to_string(), r.clone());
        }
        VertexData { ty: "T".into(), props, edges: BTreeMap::new() }
    };
    let (vertices, query, args): (Vec<VertexData>, Query, BTreeMap<String, Value>) = match mode {
        0 | 1 => {
            let v = mk_vertex(Some(&l), Some(&r));
            let mut body = vec![];
            if mode == 1 {
                body.push(Sel::Prop(PropSel { name: rp.into(), tags: vec![Some("t".into())], ..Default::default() }));
            }
            body.push(Sel::Prop(PropSel {
                name: lp.into(),
                filters: vec![Filter { op, arg: Some(if mode == 0 { Arg::Var("v".into()) } else { Arg::Tag("t".into()) }) }],
                ..Default::default()
            }));
            body.push(Sel::Prop(PropSel { name: "__typename".into(), outputs: vec![Some("o".into())], ..Default::default() }));
            let q = Query { root: EdgeSel { name: "Start".into(), body, ..Default::default() } };
            let args = if mode == 0 { BTreeMap::from([("v".to_string(), r.clone())]) } else { BTreeMap::new() };
            (vec![v], q, args)
        }
        _ => {
            // vertex 0 holds the right operand (tagged), its neighbour vertex 1 holds the left operand
            let mut v0 = mk_vertex(None, Some(&r));
            v0.edges.insert("next".into(), vec![1]);
            let v1 = mk_vertex(Some(&l), None);
            let inner = EdgeSel {
                name: "next".into(),
                body: vec![
                    Sel::Prop(PropSel { name: lp.into(), filters: vec![Filter { op, arg: Some(Arg::Tag("t".into())) }], ..Default::default() }),
                    Sel::Prop(PropSel { name: "__typename".into(), outputs: vec![Some("o".into())], ..Default::default() }),
                ],
                ..Default::default()
            };
            let q = Query {
                root: EdgeSel {
                    name: "Start".into(),
                    body: vec![Sel::Prop(PropSel { name: rp.into(), tags: vec![Some("t".into())], ..Default::default() }), Sel::Edge(inner)],
                    ..Default::default()
                },
            };
            (vec![v0, v1], q, BTreeMap::new())
        }
    };
    if op.is_unary() {
        return Verdict::Discard("unary".into());
    }
    let Some(want) = apply_op(op, &l, &r) else { return Verdict::Discard("unsupported-operands".into()) };
    let ann = annotate(&schema, &query);
    if !ann.errors.is_empty() {
        return Verdict::HarnessBug(format!("e2e query does not annotate: {:?}", ann.errors));
    }
    let sdl = schema.render();
    let text = query.render();
    let eschema = match engine::parse_schema(&sdl) {
        Ok(Ok(s)) => s,
        other => return Verdict::HarnessBug(format!("fixed schema rejected: {other:?}")),
    };
    let iq = match engine::compile(&eschema, &text) {
        engine::CompileOutcome::Ok(iq) => iq,
        engine::CompileOutcome::Err(e) => return Verdict::Discard(format!("frontend-rejected:{}", e.split('(').next().unwrap_or(""))),
        engine::CompileOutcome::Panic(_) => return Verdict::Discard("frontend-panic(C10)".into()),
    };
    let mut entry = BTreeMap::new();
    entry.insert("Start".to_string(), vec![0u32]);
    let world = Arc::new(World { schema, data: Dataset { vertices, entry } });
    let out = engine::execute(Arc::new(GraphAdapter::new(world)), iq, engine::args_to_engine(&args), 10);
    if counting {
        stats.label(["e2e:variable", "e2e:tag_same_vertex", "e2e:tag_previous_vertex"][mode]);
        stats.label(&format!("op:{}", op.name()));
        if interesting(&l, &r) && stats.nontrivial(format!("{mode}{}{l:?}{r:?}", op.name()).as_bytes()) {
            stats.sample(|| json!({"query": text, "left": l.to_json(), "right": r.to_json(), "expected_rows": want as u8}));
        }
    }
    match out {
        ExecOutcome::Budget => Verdict::HarnessBug("one-vertex world exhausted the work budget".into()),
        ExecOutcome::Rows(rows) => {
            let got = rows.len() == 1;
            if rows.len() > 1 {
                return Verdict::HarnessBug("e2e world yielded more than one row".into());
            }
            if got == want {
                Verdict::Pass
            } else {
                Verdict::Fail {
                    sig: format!("c07:e2e-verdict-differs|{}|{}", op.name(), ["variable", "tag", "tag"][mode]),
                    msg: format!("{l:?} {} {r:?}: engine kept the row: {got}, definition says {want}\nquery:\n{text}", op.name()),
                }
            }
        }
        ExecOutcome::ArgError(e) => Verdict::Discard(format!("args-rejected:{}", first_line(&e).chars().take(30).collect::<String>())),
        ExecOutcome::Panic(p, _) => Verdict::Fail {
            sig: format!("c07:e2e-panic|{}|{}", op.name(), p.file()),
            msg: format!("{}\n{l:?} {} {r:?}\nquery:\n{text}", p.render(), op.name()),
        },
    }
}

/// End to end, several pairs in ONE execution: 2-5 starting vertices, each holding its own (left, right) pair for the same
/// operator in two of its properties; the right operand is a tag from the same vertex. The verdict for a pair must not
/// depend on the pairs evaluated before it (e.g. through a cached compiled pattern).
pub fn c07_e2e_sequence_case(bytes: &[u8], stats: &mut Stats, counting: bool) -> Verdict {
    let mut c = Choices::new(bytes);
    let (op, l0, r0) = gen_direct(&mut c);
    if op.is_unary() {
        return Verdict::Discard("unary".into());
    }
    let Some((lp, rp)) = e2e_props(op, &l0, &r0) else { return Verdict::Discard("no-props".into()) };
    let schema = e2e_schema();
    let lty = schema.field("T", lp).unwrap().ty.clone();
    let rty = schema.field("T", rp).unwrap().ty.clone();
    let mut pairs: Vec<(Value, Value)> = vec![(l0, r0)];
    let n = 1 + c.below(4);
    for _ in 0..n * 5 {
        if pairs.len() > n {
            break;
        }
        // further pairs for the same operator: fresh draws that fit the same two properties, or recombinations
        let (op2, l, r) = gen_direct(&mut c);
        let (l, r) = match c.below(4) {
            0 => (pairs[0].0.clone(), r),
            1 => (l, pairs[0].1.clone()),
            2 => (pairs[pairs.len() - 1].1.clone(), pairs[0].0.clone()),
            _ => (l, r),
        };
        let _ = op2;
        if lty.valid(&l) && rty.valid(&r) && apply_op(op, &l, &r).is_some() {
            pairs.push((l, r));
        }
    }
    pairs.retain(|(l, r)| lty.valid(l) && rty.valid(r) && apply_op(op, l, r).is_some());
    if pairs.len() < 2 {
        return Verdict::Discard("fewer-than-two-fitting-pairs".into());
    }
    // a property that is neither operand identifies the vertex in the output
    let id_prop = if lp != "i" && rp != "i" && lp != "i2" && rp != "i2" { "i" } else { "s" };
    let vertices: Vec<VertexData> = pairs
        .iter()
        .enumerate()
        .map(|(k, (l, r))| {
            let mut props: BTreeMap<String, Value> = schema.properties("T").iter().map(|p| (p.name.clone(), Value::Null)).collect();
            props.insert(lp.to_string(), l.clone());
            props.insert(rp.to_string(), r.clone());
            props.insert(id_prop.to_string(), if id_prop == "i" { Value::int(k as i128) } else { Value::str(&format!("v{k}")) });
            VertexData { ty: "T".into(), props, edges: BTreeMap::new() }
        })
        .collect();
    let body = vec![
        Sel::Prop(PropSel { name: rp.into(), tags: vec![Some("t".into())], ..Default::default() }),
        Sel::Prop(PropSel { name: lp.into(), filters: vec![Filter { op, arg: Some(Arg::Tag("t".into())) }], ..Default::default() }),
        Sel::Prop(PropSel { name: id_prop.into(), outputs: vec![Some("o".into())], ..Default::default() }),
    ];
    let query = Query { root: EdgeSel { name: "Start".into(), body, ..Default::default() } };
    let ann = annotate(&schema, &query);
    if !ann.errors.is_empty() {
        return Verdict::HarnessBug(format!("e2e sequence query does not annotate: {:?}", ann.errors));
    }
    let want: Vec<usize> = pairs.iter().enumerate().filter(|(_, (l, r))| apply_op(op, l, r) == Some(true)).map(|(k, _)| k).collect();
    let sdl = schema.render();
    let text = query.render();
    let eschema = match engine::parse_schema(&sdl) {
        Ok(Ok(s)) => s,
        other => return Verdict::HarnessBug(format!("fixed schema rejected: {other:?}")),
    };
    let iq = match engine::compile(&eschema, &text) {
        engine::CompileOutcome::Ok(iq) => iq,
        engine::CompileOutcome::Err(e) => return Verdict::Discard(format!("frontend-rejected:{}", e.split('(').next().unwrap_or(""))),
        engine::CompileOutcome::Panic(_) => return Verdict::Discard("frontend-panic(C10)".into()),
    };
    let mut entry = BTreeMap::new();
    entry.insert("Start".to_string(), (0..vertices.len() as u32).collect::<Vec<u32>>());
    let world = Arc::new(World { schema, data: Dataset { vertices, entry } });
    let out = engine::execute(Arc::new(GraphAdapter::new(world)), iq, engine::args_to_engine(&BTreeMap::new()), 100);
    if counting {
        stats.label("e2e:sequence_of_pairs_in_one_execution");
        stats.label(&format!("op:{}", op.name()));
        if stats.nontrivial(format!("seq{}{pairs:?}", op.name()).as_bytes()) {
            stats.sample(|| json!({"query": text, "pairs": pairs.iter().map(|(l, r)| json!([l.to_json(), r.to_json()])).collect::<Vec<_>>(), "expected_kept": want}));
        }
    }
    match out {
        ExecOutcome::Budget => Verdict::HarnessBug("tiny world exhausted the work budget".into()),
        ExecOutcome::Rows(rows) => {
            let got: Vec<usize> = rows
                .iter()
                .map(|r| match Value::from_field_value(&r[&Arc::<str>::from("o")]) {
                    Value::Int { v, .. } => v as usize,
                    Value::Str(s) => s.trim_start_matches('v').parse().unwrap_or(usize::MAX),
                    _ => usize::MAX,
                })
                .collect();
            if got == want {
                Verdict::Pass
            } else {
                Verdict::Fail {
                    sig: format!("c07:e2e-sequence-verdicts-differ|{}", op.name()),
                    msg: format!("operator {} over the pairs {pairs:?} (left, right) in one execution: engine kept vertices {got:?}, the definition keeps {want:?}\nquery:\n{text}", op.name()),
                }
            }
        }
        ExecOutcome::ArgError(e) => Verdict::Discard(format!("args-rejected:{}", first_line(&e).chars().take(30).collect::<String>())),
        ExecOutcome::Panic(p, _) => Verdict::Fail {
            sig: format!("c07:e2e-panic|{}|{}", op.name(), p.file()),
            msg: format!("{}\npairs {pairs:?}\nquery:\n{text}", p.render()),
        },
    }
}

pub fn c07(ctx: &CheckCtx) -> i32 {
    if ctx.replay.is_some() {
        return replay_with(ctx, &|sub, b| match sub {
            "c07-e2e" => c07_e2e_case(b, &mut Stats::default(), false),
            "c07-e2e-sequence" => c07_e2e_sequence_case(b, &mut Stats::default(), false),
            _ => c07_direct_case(b, &mut Stats::default(), false),
        });
    }
    let mut report = Report::new(
        ctx,
        "exhaustive: every ordered pair of the 15 integer boundary values in every encoding x {=, !=, <, <=, >, >=} plus null \
         on either side, against an i128 model. Random (direct, through the guarded re-exports): operator x operand pair from \
         typed pools (ints incl. random 64-bit patterns, finite floats, strings incl. empty/multibyte, nulls, lists, valid and \
         invalid regexes; right operand often derived from the left: other encoding, neighbour, prefix/suffix), every negated \
         operator also checked as exact complement. End-to-end: the same pairs placed in a one/two-vertex world with the right \
         operand supplied as variable, tag from the same vertex, or tag from the previous vertex; the row count is the verdict; and \
         2-5 such pairs for one operator on 2-5 starting vertices of ONE execution (tag from the same vertex), where the kept vertices \
         must be exactly those whose own pair satisfies the operator, whatever was evaluated before. \
         Non-trivial: encodings differ, value beyond i64, null involved, or strict prefix/suffix/infix; distinct by (op, pair).",
    );
    report.assume("only operand kind combinations the frontend admits are generated (never String < Int; no ordering on lists: listed C09 finding)");
    // exhaustive grid
    let mut grid: Vec<Value> = vec![Value::Null];
    for v in INT_BOUNDARY {
        for e in int_encodings(v) {
            grid.push(Value::from_field_value(&e));
        }
    }
    let mut n = 0u64;
    let res = engine::catch(|| {
        for l in &grid {
            for r in &grid {
                for op in [Op::Eq, Op::Ne, Op::Lt, Op::Le, Op::Gt, Op::Ge] {
                    n += 1;
                    if let Some(v) = direct_violation(op, l, r) {
                        return Some(v);
                    }
                }
            }
        }
        None
    });
    match res {
        Ok(None) => {}
        Ok(Some((k, m))) => report.violation("c07-grid", &format!("c07:{k}"), &m, json!({"detail": m})),
        Err(p) => report.violation("c07-grid", &format!("c07:operator-panicked|grid|{}", p.file()), &p.render(), json!({})),
    }
    report.stats.evaluations += n;
    report.stats.bump("exhaustive_integer_boundary_grid", n);
    report.extra.insert("exhaustive_subspace".into(), json!({"exhaustive": true, "cases": n}));
    let _ = ALL_OPS;
    let cases = ctx.cases(8_000_000, 100_000_000);
    let res = search(ctx, "c07-direct", cases, 8, 120, c07_direct_case);
    report.absorb(res, &|b| {
        let (op, l, r) = gen_direct(&mut Choices::new(b));
        json!({"op": op.name(), "left": l.to_json(), "right": r.to_json()})
    });
    let cases = ctx.cases(500_000, 4_000_000);
    let res = search(ctx, "c07-e2e", cases, 8, 120, c07_e2e_case);
    report.absorb(res, &|b| {
        let (op, l, r) = gen_direct(&mut Choices::new(b));
        json!({"op": op.name(), "left": l.to_json(), "right": r.to_json()})
    });
    let cases = ctx.cases(300_000, 3_000_000);
    let res = search(ctx, "c07-e2e-sequence", cases, 16, 400, c07_e2e_sequence_case);
    report.absorb(res, &|b| {
        let (op, l, r) = gen_direct(&mut Choices::new(b));
        json!({"op": op.name(), "first_left": l.to_json(), "first_right": r.to_json()})
    });
    report.finish()
}
