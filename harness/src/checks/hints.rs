//! C04: pruning data with the engine's query hints never changes results.

use std::{collections::BTreeSet, sync::Arc};

use serde_json::json;

use crate::adapter::GraphAdapter;
use crate::checks::world::{default_gen_config, render_world_case, ROW_LIMIT, WORLD_MAX_LEN, WORLD_MIN_LEN};
use crate::checks::{replay_with, Report};
use crate::choice::Choices;
use crate::engine::{self, ExecOutcome};
use crate::pruning::{PruneConfig, PruningAdapter};
use crate::query_ast::{Arg, TagDef};
use crate::runner::{search, CheckCtx, Stats, Verdict};
use crate::values::Op;
use crate::worldcase::{compile_case, decode_world_case, first_line, GenConfig, WorldCase};

/// (vid, property) pairs that carry a `>=` filter with a tag operand (listed finding: its dynamic hint is an upper bound)
pub fn ge_tag_sites(case: &WorldCase) -> BTreeSet<(usize, String)> {
    let mut out = BTreeSet::new();
    case.ann.root.walk(&mut |n| {
        for p in &n.props {
            for f in &p.filters {
                if f.op == Op::Ge && matches!(f.arg, Some(Arg::Tag(_))) {
                    out.insert((n.vid, p.name.clone()));
                }
            }
        }
    });
    out
}

fn scope_labels(case: &WorldCase) -> Vec<String> {
    // operator x operand kind x scope of every filter: the interaction surface of the hints
    let mut out = vec![];
    fn go(n: &crate::query_ast::ANode, case: &WorldCase, scope: &str, out: &mut Vec<String>) {
        let my_scope = if n.fold {
            if n.count.as_ref().map(|c| !c.filters.is_empty()).unwrap_or(false) { "fold_with_count_filter" } else { "fold" }
        } else if n.optional {
            "optional"
        } else if let Some(d) = n.recurse {
            if d >= 2 { "recurse_ge_2" } else { "recurse_1" }
        } else {
            scope
        };
        for p in &n.props {
            for f in &p.filters {
                let kind = match &f.arg {
                    None => "unary",
                    Some(Arg::Var(_)) => "variable",
                    Some(Arg::Tag(t)) => match case.ann.tags.get(t) {
                        Some(TagDef::Count { .. }) => "count_tag",
                        _ => "tag",
                    },
                };
                out.push(format!("hint_surface:{}:{kind}:{my_scope}", f.op.name()));
            }
        }
        for c in &n.children {
            go(c, case, my_scope, out);
        }
    }
    go(&case.ann.root, case, "plain", &mut out);
    out
}

fn run_pruned(case: &WorldCase, iq: Arc<trustfall_core::ir::IndexedQuery>, cfg: PruneConfig) -> (ExecOutcome, std::rc::Rc<crate::pruning::PruneStats>) {
    let (adapter, pstats) = PruningAdapter::new(case.world.clone(), cfg);
    #[allow(clippy::arc_with_non_send_sync)]
    let out = engine::execute(Arc::new(adapter), iq, engine::args_to_engine(&case.args), ROW_LIMIT * 2);
    (out, pstats)
}

pub fn c04_case(bytes: &[u8], stats: &mut Stats, counting: bool, cfg: &GenConfig, exclude_listed: bool) -> Verdict {
    let mut c = Choices::new(bytes);
    let case = decode_world_case(&mut c, cfg);
    let compiled = match compile_case(&case) {
        Ok(x) => x,
        Err(Verdict::Fail { .. }) => return Verdict::Discard("frontend-panic(C10)".into()),
        Err(v) => return v,
    };
    let plain = engine::execute(
        Arc::new(GraphAdapter::new(case.world.clone())),
        compiled.iq.clone(),
        engine::args_to_engine(&case.args),
        ROW_LIMIT * 2,
    );
    let plain_rows = match plain {
        ExecOutcome::Budget => return Verdict::Discard("too-much-work".into()),
        ExecOutcome::Rows(r) => r,
        ExecOutcome::ArgError(_) => return Verdict::Discard("args-rejected(C12)".into()),
        ExecOutcome::Panic(..) => return Verdict::Discard("engine-panic(C09)".into()),
    };
    if plain_rows.len() >= ROW_LIMIT * 2 {
        return Verdict::Discard("too-many-rows".into());
    }
    let ge_sites = ge_tag_sites(&case);
    let base_cfg = PruneConfig {
        ignore_dynamic: if exclude_listed { ge_sites.clone() } else { BTreeSet::new() },
        use_static: true,
        use_dynamic: true,
        use_mandatory: true,
    };
    let (out, pstats) = run_pruned(&case, compiled.iq.clone(), base_cfg.clone());
    if counting {
        for l in case.features.labels() {
            stats.label(l);
        }
        for l in scope_labels(&case) {
            stats.label(&l);
        }
        for k in pstats.kinds.borrow().iter() {
            stats.label(&format!("hint:{k}"));
        }
        stats.bump("vertices_pruned", pstats.total_pruned());
        if exclude_listed && !ge_sites.is_empty() {
            stats.bump("dynamic_hints_excluded_for_listed_finding", ge_sites.len() as u64);
        }
        let restrictive = pstats.kinds.borrow().iter().any(|k| k.starts_with("static:") || k.starts_with("dynamic:"));
        if (pstats.total_pruned() > 0 || restrictive || pstats.mandatory_edges_consulted.get() > 0) && stats.nontrivial(&case.key()) {
            stats.sample(|| json!({"case": case.short_json(), "pruned": pstats.total_pruned(), "hint_kinds": pstats.kinds.borrow().iter().cloned().collect::<Vec<_>>()}));
        }
    }
    match out {
        ExecOutcome::Budget => return Verdict::Discard("too-much-work".into()),
        ExecOutcome::Rows(rows) => {
            if rows == plain_rows {
                return Verdict::Pass;
            }
            // attribution: which hint source changes the results?
            let mut culprit = vec![];
            for (name, cfg2) in [
                ("static", PruneConfig { use_dynamic: false, use_mandatory: false, ..base_cfg.clone() }),
                ("dynamic", PruneConfig { use_static: false, use_mandatory: false, ..base_cfg.clone() }),
                ("mandatory-edge", PruneConfig { use_static: false, use_dynamic: false, ..base_cfg.clone() }),
            ] {
                if let (ExecOutcome::Rows(r2), _) = run_pruned(&case, compiled.iq.clone(), cfg2) {
                    if r2 != plain_rows {
                        culprit.push(name);
                    }
                }
            }
            // is the whole disagreement explained by dynamic hints of `>=`-with-tag filters?
            let mut sig = format!("c04:pruning-changed-results|{}", culprit.join("+"));
            if !exclude_listed && !ge_sites.is_empty() {
                let cfg3 = PruneConfig { ignore_dynamic: ge_sites.clone(), ..base_cfg.clone() };
                if let (ExecOutcome::Rows(r3), _) = run_pruned(&case, compiled.iq.clone(), cfg3) {
                    if r3 == plain_rows {
                        sig = "c04:dynamic-hint-of->=-with-tag-is-an-upper-bound".into();
                    }
                }
            }
            Verdict::Fail {
                sig,
                msg: format!(
                    "pruning with the hints changed the results: {} rows with pruning, {} without ({} vertices pruned; hint kinds {:?})\nquery:\n{}\nargs: {:?}",
                    rows.len(),
                    plain_rows.len(),
                    pstats.total_pruned(),
                    pstats.kinds.borrow(),
                    case.query_text,
                    case.args
                ),
            }
        }
        ExecOutcome::ArgError(e) => Verdict::HarnessBug(e),
        ExecOutcome::Panic(p, _) => {
            if p.in_harness() {
                Verdict::HarnessBug(p.render())
            } else {
                Verdict::Fail {
                    sig: format!("c04:hint-api-panicked|{}|{}", p.file(), first_line(&p.message).chars().take(60).collect::<String>()),
                    msg: format!("{}\nquery:\n{}\nargs: {:?}", p.render(), case.query_text, case.args),
                }
            }
        }
    }
}

pub fn c04(ctx: &CheckCtx) -> i32 {
    let cfg = default_gen_config();
    let mut tag_cfg = default_gen_config();
    tag_cfg.query.tag_bias = true;
    if ctx.replay.is_some() {
        return replay_with(ctx, &|sub, b| {
            c04_case(b, &mut Stats::default(), false, if sub == "c04-tags" { &tag_cfg } else { &cfg }, sub != "c04-listed")
        });
    }
    let mut report = Report::new(
        ctx,
        "choice stream -> world; the same query runs over the honest adapter and over a pruning adapter that, when producing \
         starting vertices and neighbours, drops vertices whose property values fall outside statically_required_property / \
         dynamically_required_property candidates (resolved per context, several properties chained) or that lack an edge \
         reported by mandatory_edges_with_name (one level deep, incl. the destination's own static candidates and mandatory \
         edges); membership is decided by a harness model, not by engine code. Oracle: identical row sequence. Non-trivial: a \
         vertex was pruned, or a candidate other than All was consulted, or a mandatory edge was reported; distinct by case hash. \
         The label histogram reports operator x operand kind x scope of every filter.",
    );
    report.assume("the pruning adapter uses only what VertexInfo documents as binding (no first_edge / edges_with_name of non-mandatory edges)");
    report.assume("the main search ignores dynamic hints of properties that carry a `>=` filter with a tag (listed finding, pinned by the repo's own unit test); a second search includes them and tolerates exactly that attributed signature");
    let cases = ctx.cases(150_000, 2_000_000);
    let res = search(ctx, "c04", cases, WORLD_MIN_LEN, WORLD_MAX_LEN, |b, s, k| c04_case(b, s, k, &cfg, true));
    report.absorb(res, &|b| render_world_case(b, &cfg));
    // tag-biased worlds: more property and fold-count tags, up to three filters per property, mostly tag operands
    let cases = ctx.cases(200_000, 2_000_000);
    let res = search(ctx, "c04-tags", cases, WORLD_MIN_LEN, WORLD_MAX_LEN, |b, s, k| c04_case(b, s, k, &tag_cfg, true));
    report.absorb(res, &|b| render_world_case(b, &tag_cfg));
    let cases = ctx.cases(60_000, 800_000);
    let res = search(ctx, "c04-listed", cases, WORLD_MIN_LEN, WORLD_MAX_LEN, |b, s, k| {
        let mut scratch = Stats::default();
        let v = c04_case(b, &mut scratch, k, &cfg, false);
        if k {
            s.bump("cases_in_search_including_listed_findings", 1);
        }
        v
    });
    report.absorb(res, &|b| render_world_case(b, &cfg));
    // dedicated probe for the listed finding: a committed minimal case, so that the KNOWN-FINDING line does not depend
    // on whether this seed's search happens to reach the construct
    let probe_path = std::path::Path::new(crate::runner::VERIF_ROOT).join("corpus/C04/seed-ge-dynamic-hint.json");
    if let Ok(seed_case) = crate::runner::read_replay(&probe_path) {
        let reproduces = matches!(
            c04_case(&seed_case.choices, &mut Stats::default(), false, &cfg, false),
            Verdict::Fail { sig, .. } if sig.contains("c04:dynamic-hint-of->=-with-tag-is-an-upper-bound")
        );
        if !report.stats.known_hits.contains_key("KF-C04-dynamic-ge-hint") || !reproduces {
            report.probe("KF-C04-dynamic-ge-hint", reproduces);
        }
    }
    report.finish()
}
