//! C17 (type lattice laws) and C06 (candidate-value set operations). Need the guarded hooks.
#![cfg(feature = "hooks")]

use std::ops::Bound;

use serde_json::json;
use trustfall_core::{
    interpreter::{verif_hooks::hints as hh, CandidateValue, Range},
    ir::{verif_hooks as th, FieldValue, Type},
};

use crate::checks::fieldvalue::int_encodings;
use crate::checks::{replay_with, Report};
use crate::choice::Choices;
use crate::engine;
use crate::runner::{search, CheckCtx, Stats, Verdict};
use crate::values::{Ty, Value};

// ---------------------------------------------------------------------------------------------
// C17

fn small_types() -> Vec<Ty> {
    let mut out = vec![];
    for base in ["Int", "String", "Other"] {
        for depth in 0..=3usize {
            for mask in 0..(1u32 << (depth + 1)) {
                out.push(Ty { base: base.into(), nulls: (0..=depth).map(|i| mask & (1 << i) != 0).collect() });
            }
        }
    }
    out
}

fn eng(t: &Ty) -> Type {
    Type::parse(&t.render()).unwrap_or_else(|e| panic!("HARNESS: {e}"))
}

fn model_of(t: &Type) -> Ty {
    Ty::parse(&t.to_string()).expect("HARNESS: engine type renders unparsable text")
}

fn pair_violation(a: &Ty, b: &Ty, ea: &Type, eb: &Type) -> Option<(&'static str, String)> {
    let got = ea.intersect(eb).map(|t| model_of(&t));
    let want = a.intersect(b);
    if got != want {
        return Some(("intersect-differs-from-model", format!("{} ∩ {} = {:?}, expected {:?}", a.render(), b.render(), got.map(|t| t.render()), want.map(|t| t.render()))));
    }
    if ea.intersect(eb) != eb.intersect(ea) {
        return Some(("intersect-not-commutative", format!("{} {}", a.render(), b.render())));
    }
    if let Some(i) = ea.intersect(eb) {
        // a subtype of both inputs
        if !th::type_is_scalar_only_subtype(ea, &i) || !th::type_is_scalar_only_subtype(eb, &i) {
            return Some(("intersection-not-a-subtype-of-inputs", format!("{} {}", a.render(), b.render())));
        }
    }
    let sub = th::type_is_scalar_only_subtype(ea, eb); // is b a subtype of a
    if sub != b.is_subtype_of(a) {
        return Some(("subtype-differs-from-model", format!("is {} a subtype of {}: engine {sub}", b.render(), a.render())));
    }
    if sub && th::type_is_scalar_only_subtype(eb, ea) && ea != eb {
        return Some(("subtype-not-antisymmetric", format!("{} {}", a.render(), b.render())));
    }
    let eqn = th::type_equal_ignoring_nullability(ea, eb);
    if eqn != a.same_shape(b) {
        return Some(("equal-ignoring-nullability-differs-from-model", format!("{} {}", a.render(), b.render())));
    }
    if eqn != th::type_equal_ignoring_nullability(eb, ea) {
        return Some(("equal-ignoring-nullability-not-symmetric", format!("{} {}", a.render(), b.render())));
    }
    None
}

fn values_for(t: &Ty) -> Vec<Value> {
    // a handful of values of each nesting level, valid and invalid for t
    let scalar = |b: &str| match b {
        "Int" => vec![Value::int(1), Value::uint(u64::MAX as i128)],
        "String" => vec![Value::str("a")],
        _ => vec![],
    };
    let mut level: Vec<Value> = vec![Value::Null];
    level.extend(scalar(&t.base));
    level.push(Value::Bool(true));
    let mut all = level.clone();
    for _ in 0..t.depth() {
        let mut next = vec![Value::Null, Value::List(vec![])];
        for v in &level {
            next.push(Value::List(vec![v.clone()]));
            next.push(Value::List(vec![v.clone(), Value::Null]));
        }
        next.truncate(24);
        all.extend(next.clone());
        level = next;
    }
    all
}

pub fn c17_random_case(bytes: &[u8], stats: &mut Stats, counting: bool) -> Verdict {
    let mut c = Choices::new(bytes);
    let base = ["Int", "String", "Float", "Custom"][c.below(4)];
    let depth = if c.chance(60) { 4 + c.below(27) } else { c.below(5) };
    let mk = |c: &mut Choices<'_>, depth: usize, base: &str| Ty { base: base.into(), nulls: (0..=depth).map(|_| c.chance(128)).collect() };
    let a = mk(&mut c, depth, base);
    let b = if c.chance(200) {
        mk(&mut c, depth, base)
    } else {
        let d2 = c.below(6);
        let b2 = ["Int", "String"][c.below(2)];
        mk(&mut c, d2, b2)
    };
    let cc = mk(&mut c, depth, base);
    if counting && a.same_shape(&b) && a != b && stats.nontrivial(format!("{}{}", a.render(), b.render()).as_bytes()) {
        stats.sample(|| json!([a.render(), b.render(), cc.render()]));
    }
    let r = engine::catch(|| {
        let (ea, eb, ec) = (eng(&a), eng(&b), eng(&cc));
        if let Some(v) = pair_violation(&a, &b, &ea, &eb) {
            return Some(v);
        }
        if let Some(v) = pair_violation(&b, &cc, &eb, &ec) {
            return Some(v);
        }
        // associativity
        let l = ea.intersect(&eb).and_then(|x| x.intersect(&ec));
        let r = eb.intersect(&ec).and_then(|x| ea.intersect(&x));
        if l != r {
            return Some(("intersect-not-associative", format!("{} {} {}", a.render(), b.render(), cc.render())));
        }
        if ea.intersect(&ea) != Some(ea.clone()) {
            return Some(("intersect-not-idempotent", a.render()));
        }
        None
    });
    match r {
        Ok(None) => Verdict::Pass,
        Ok(Some((k, m))) => Verdict::Fail { sig: format!("c17:{k}"), msg: m },
        Err(p) => Verdict::Fail { sig: format!("c17:panic|{}", p.file()), msg: format!("{} on {} {} {}", p.render(), a.render(), b.render(), cc.render()) },
    }
}

pub fn c17(ctx: &CheckCtx) -> i32 {
    if ctx.replay.is_some() {
        return replay_with(ctx, &|_s, b| c17_random_case(b, &mut Stats::default(), false));
    }
    let mut report = Report::new(
        ctx,
        "exhaustive: all 90 types over 3 base names with 0-3 list levels and every nullability pattern - all pairs (intersect \
         == pointwise model, commutative, result a subtype of both inputs and the greatest common subtype among all 90 types, \
         subtype relation == model, antisymmetric, equal-ignoring-nullability == model and symmetric), all triples \
         (associativity, transitivity of both relations), and for every type pair t <= u every generated value valid for t is \
         valid for u (engine is_valid_value vs model). Random: types up to list depth 30. Non-trivial: same-shape pair \
         differing in at least one nullability bit.",
    );
    let types = small_types();
    let engs: Vec<Type> = types.iter().map(eng).collect();
    let mut n = 0u64;
    let mut nontrivial = 0u64;
    let res = engine::catch(|| -> Option<(String, String)> {
        for (i, a) in types.iter().enumerate() {
            if engs[i].intersect(&engs[i]) != Some(engs[i].clone()) {
                return Some(("intersect-not-idempotent".into(), a.render()));
            }
            if !th::type_is_scalar_only_subtype(&engs[i], &engs[i]) || !th::type_equal_ignoring_nullability(&engs[i], &engs[i]) {
                return Some(("relation-not-reflexive".into(), a.render()));
            }
            for (j, b) in types.iter().enumerate() {
                n += 1;
                if a.same_shape(b) && a != b {
                    nontrivial += 1;
                }
                if let Some((k, m)) = pair_violation(a, b, &engs[i], &engs[j]) {
                    return Some((k.into(), m));
                }
                // greatest common subtype
                if let Some(meet) = engs[i].intersect(&engs[j]) {
                    for (k, s) in types.iter().enumerate() {
                        if s.is_subtype_of(a) && s.is_subtype_of(b) && !th::type_is_scalar_only_subtype(&meet, &engs[k]) {
                            return Some(("intersection-not-greatest-common-subtype".into(), format!("{} {} common subtype {}", a.render(), b.render(), s.render())));
                        }
                    }
                } else {
                    for s in types.iter() {
                        if s.is_subtype_of(a) && s.is_subtype_of(b) {
                            return Some(("intersection-none-but-common-subtype-exists".into(), format!("{} {} {}", a.render(), b.render(), s.render())));
                        }
                    }
                }
                // validity is monotone: b <= a  =>  valid(b, v) => valid(a, v)
                if b.is_subtype_of(a) {
                    for v in values_for(b) {
                        let fv = v.to_field_value();
                        let vb = engs[j].is_valid_value(&fv);
                        let va = engs[i].is_valid_value(&fv);
                        if vb != b.valid(&v) || va != a.valid(&v) {
                            return Some(("is-valid-value-differs-from-model".into(), format!("{v:?} for {} / {}", b.render(), a.render())));
                        }
                        if vb && !va {
                            return Some(("value-valid-for-subtype-invalid-for-supertype".into(), format!("{v:?} {} <= {}", b.render(), a.render())));
                        }
                    }
                }
            }
        }
        // triples
        for i in 0..types.len() {
            for j in 0..types.len() {
                let ij = engs[i].intersect(&engs[j]);
                let sub_ij = th::type_is_scalar_only_subtype(&engs[i], &engs[j]);
                let eq_ij = th::type_equal_ignoring_nullability(&engs[i], &engs[j]);
                for k in 0..types.len() {
                    n += 1;
                    let l = ij.as_ref().and_then(|x| x.intersect(&engs[k]));
                    let r = engs[j].intersect(&engs[k]).and_then(|x| engs[i].intersect(&x));
                    if l != r {
                        return Some(("intersect-not-associative".into(), format!("{} {} {}", types[i].render(), types[j].render(), types[k].render())));
                    }
                    if sub_ij && th::type_is_scalar_only_subtype(&engs[j], &engs[k]) && !th::type_is_scalar_only_subtype(&engs[i], &engs[k]) {
                        return Some(("subtype-not-transitive".into(), format!("{} {} {}", types[i].render(), types[j].render(), types[k].render())));
                    }
                    if eq_ij && th::type_equal_ignoring_nullability(&engs[j], &engs[k]) && !th::type_equal_ignoring_nullability(&engs[i], &engs[k]) {
                        return Some(("equal-ignoring-nullability-not-transitive".into(), format!("{} {} {}", types[i].render(), types[j].render(), types[k].render())));
                    }
                }
            }
        }
        None
    });
    match res {
        Ok(None) => {}
        Ok(Some((k, m))) => report.violation("c17-exhaustive", &format!("c17:{k}"), &m, json!({"detail": m})),
        Err(p) => report.violation("c17-exhaustive", &format!("c17:panic|{}", p.file()), &p.render(), json!({"panic": p.render()})),
    }
    report.stats.evaluations += n;
    report.stats.bump("exhaustive_pairs_and_triples", n);
    for i in 0..nontrivial.min(4000) {
        report.stats.nontrivial(format!("exhaustive-pair-{i}").as_bytes());
    }
    report.stats.samples.push(json!({"exhaustive_types_sample": types.iter().take(12).map(|t| t.render()).collect::<Vec<_>>()}));
    report.extra.insert("exhaustive_subspace".into(), json!({"types": types.len(), "exhaustive": true}));
    let cases = ctx.cases(4_000_000, 40_000_000);
    let res = search(ctx, "c17", cases, 8, 140, c17_random_case);
    report.absorb(res, &|b| json!({"choices_len": b.len()}));
    report.finish()
}

// ---------------------------------------------------------------------------------------------
// C06

type Cand = CandidateValue<FieldValue>;

/// reference membership, written on the public enum with the harness value order
fn mem(c: &Cand, v: &Value) -> bool {
    let fv = |x: &FieldValue| Value::from_field_value(x);
    match c {
        CandidateValue::Impossible => false,
        CandidateValue::All => true,
        CandidateValue::Single(s) => crate::values::eq(&fv(s), v),
        CandidateValue::Multiple(m) => m.iter().any(|x| crate::values::eq(&fv(x), v)),
        CandidateValue::Range(r) => {
            if v.is_null() {
                return r.null_included();
            }
            let lo = match r.start_bound() {
                Bound::Unbounded => true,
                Bound::Included(b) => crate::values::cmp_scalar(&fv(b), v).map(|o| o != std::cmp::Ordering::Greater).unwrap_or(false),
                Bound::Excluded(b) => crate::values::cmp_scalar(&fv(b), v).map(|o| o == std::cmp::Ordering::Less).unwrap_or(false),
            };
            let hi = match r.end_bound() {
                Bound::Unbounded => true,
                Bound::Included(b) => crate::values::cmp_scalar(v, &fv(b)).map(|o| o != std::cmp::Ordering::Greater).unwrap_or(false),
                Bound::Excluded(b) => crate::values::cmp_scalar(v, &fv(b)).map(|o| o == std::cmp::Ordering::Less).unwrap_or(false),
            };
            lo && hi
        }
        _ => panic!("HARNESS: unknown candidate variant"),
    }
}

fn bound_of(kind: usize, v: &FieldValue) -> Bound<FieldValue> {
    match kind {
        0 => Bound::Unbounded,
        1 => Bound::Included(v.clone()),
        _ => Bound::Excluded(v.clone()),
    }
}

/// all candidates over a small non-null universe `u` (values in increasing order)
fn all_candidates(u: &[FieldValue]) -> Vec<Cand> {
    let mut out = vec![CandidateValue::Impossible, CandidateValue::All, CandidateValue::Single(FieldValue::Null)];
    for v in u {
        out.push(CandidateValue::Single(v.clone()));
    }
    // Multiple: every subset of {null} + u, in two element orders, plus one with a duplicate
    let mut universe = vec![FieldValue::Null];
    universe.extend(u.iter().cloned());
    for mask in 0..(1u32 << universe.len()) {
        let items: Vec<FieldValue> = universe.iter().enumerate().filter(|(i, _)| mask & (1 << i) != 0).map(|(_, v)| v.clone()).collect();
        out.push(CandidateValue::Multiple(items.clone()));
        if items.len() >= 2 && mask % 3 == 0 {
            let mut rev = items.clone();
            rev.reverse();
            out.push(CandidateValue::Multiple(rev));
        }
        if items.len() >= 2 && mask % 7 == 0 {
            let mut dup = items.clone();
            dup.push(items[0].clone());
            out.push(CandidateValue::Multiple(dup));
        }
    }
    // Range: every pair of {unbounded, incl x, excl x} and null flag
    let mut bounds = vec![Bound::Unbounded];
    for v in u {
        bounds.push(Bound::Included(v.clone()));
        bounds.push(Bound::Excluded(v.clone()));
    }
    for s in &bounds {
        for e in &bounds {
            for n in [false, true] {
                out.push(CandidateValue::Range(hh::range_new(s.clone(), e.clone(), n)));
            }
        }
    }
    out
}

fn set_violation(a: &Cand, b: &Cand, probes: &[Value]) -> Option<(&'static str, String)> {
    // intersection
    let mut i = a.clone();
    hh::candidate_intersect(&mut i, b.clone());
    for v in probes {
        let want = mem(a, v) && mem(b, v);
        if mem(&i, v) != want {
            return Some(("intersection-membership", format!("{a:?} ∩ {b:?} = {i:?}; probe {v:?} expected {want}")));
        }
    }
    // normalisation keeps the contents
    let mut n = a.clone();
    hh::candidate_normalize(&mut n);
    for v in probes {
        if mem(&n, v) != mem(a, v) {
            return Some(("normalize-changed-contents", format!("{a:?} normalised to {n:?}; probe {v:?}")));
        }
    }
    None
}

fn exclude_violation(a: &Cand, x: &Value, probes: &[Value]) -> Option<(&'static str, String)> {
    let mut e = a.clone();
    hh::candidate_exclude_single_value(&mut e, &x.to_field_value());
    for v in probes {
        if !crate::values::eq(v, x) && mem(a, v) && !mem(&e, v) {
            return Some(("exclusion-lost-another-value", format!("{a:?} minus {x:?} = {e:?} lost {v:?}")));
        }
        if mem(&e, v) && !mem(a, v) {
            return Some(("exclusion-gained-a-value", format!("{a:?} minus {x:?} = {e:?} gained {v:?}")));
        }
    }
    None
}

fn touching(a: &Cand, b: &Cand) -> bool {
    !matches!(a, CandidateValue::All | CandidateValue::Impossible) && !matches!(b, CandidateValue::All | CandidateValue::Impossible)
}

fn gen_scalar_for(c: &mut Choices<'_>, strings: bool) -> FieldValue {
    if strings {
        FieldValue::String(std::sync::Arc::from(["", "a", "ab", "abc", "b", "ba", "z", "ä"][c.below(8)]))
    } else {
        crate::checks::fieldvalue::gen_int_fv(c)
    }
}

fn gen_cand(c: &mut Choices<'_>, strings: bool) -> Cand {
    match c.below(8) {
        0 => CandidateValue::Impossible,
        1 => CandidateValue::All,
        2 => {
            if c.chance(40) { CandidateValue::Single(FieldValue::Null) } else { CandidateValue::Single(gen_scalar_for(c, strings)) }
        }
        3 | 4 => {
            let n = c.below(5);
            CandidateValue::Multiple((0..n).map(|_| if c.chance(40) { FieldValue::Null } else { gen_scalar_for(c, strings) }).collect())
        }
        _ => {
            let s = bound_of(c.below(3), &gen_scalar_for(c, strings));
            let e = bound_of(c.below(3), &gen_scalar_for(c, strings));
            CandidateValue::Range(hh::range_new(s, e, c.chance(128)))
        }
    }
}

pub fn c06_random_case(bytes: &[u8], stats: &mut Stats, counting: bool) -> Verdict {
    let mut c = Choices::new(bytes);
    let strings = c.chance(80);
    let a = gen_cand(&mut c, strings);
    let b = gen_cand(&mut c, strings);
    // probes: null, every value mentioned by either candidate, their integer neighbours, and a few fresh ones
    let mut probes: Vec<Value> = vec![Value::Null];
    let mut mention = |cand: &Cand, probes: &mut Vec<Value>| {
        let mut push = |v: &FieldValue| {
            let m = Value::from_field_value(v);
            if let Value::Int { v, .. } = &m {
                for d in [-1i128, 1] {
                    let n = v + d;
                    if n >= i64::MIN as i128 && n <= u64::MAX as i128 {
                        probes.push(Value::int(n));
                    }
                }
            }
            probes.push(m);
        };
        match cand {
            CandidateValue::Single(s) => push(s),
            CandidateValue::Multiple(m) => m.iter().for_each(&mut push),
            CandidateValue::Range(r) => {
                for bnd in [r.start_bound(), r.end_bound()] {
                    if let Bound::Included(x) | Bound::Excluded(x) = bnd {
                        push(x);
                    }
                }
            }
            _ => {}
        }
    };
    mention(&a, &mut probes);
    mention(&b, &mut probes);
    for _ in 0..3 {
        probes.push(Value::from_field_value(&gen_scalar_for(&mut c, strings)));
    }
    let x = probes[c.below(probes.len())].clone();
    if counting {
        stats.label(if strings { "universe:strings" } else { "universe:integers" });
        if touching(&a, &b) && stats.nontrivial(format!("{a:?}{b:?}").as_bytes()) {
            stats.sample(|| json!([format!("{a:?}"), format!("{b:?}")]));
        }
    }
    let r = engine::catch(|| set_violation(&a, &b, &probes).or_else(|| set_violation(&b, &a, &probes)).or_else(|| exclude_violation(&a, &x, &probes)));
    match r {
        Ok(None) => Verdict::Pass,
        Ok(Some((k, m))) => Verdict::Fail { sig: format!("c06:{k}"), msg: m },
        Err(p) => Verdict::Fail { sig: format!("c06:panic|{}|{}", p.file(), crate::worldcase::first_line(&p.message)), msg: format!("{} on {a:?} {b:?}", p.render()) },
    }
}

pub fn c06(ctx: &CheckCtx) -> i32 {
    if ctx.replay.is_some() {
        return replay_with(ctx, &|_s, b| c06_random_case(b, &mut Stats::default(), false));
    }
    let mut report = Report::new(
        ctx,
        "exhaustive: every candidate over null + 5 ordered non-null values (Impossible, All, every Single, every subset as \
         Multiple incl. reversed order and duplicates, every Range from {unbounded, inclusive x, exclusive x}^2 x null flag) for \
         an integer universe that mixes Int64/Uint64 encodings and for a string universe: all ordered pairs x all probes \
         (the universe, values in between and outside), checking mem(a∩b) == mem(a) && mem(b), normalisation keeps membership, \
         and for every excluded x the result contains every other member and nothing new. Random: candidates over integer \
         boundary values (i64::MIN .. u64::MAX, both encodings) and longer strings, probed at every mentioned value and its \
         neighbours. Non-trivial: neither side All/Impossible; distinct by candidate pair.",
    );
    report.assume("range bounds are never null (the constructors assert it: a caller precondition)");
    let universes: Vec<(&str, Vec<FieldValue>, Vec<Value>)> = vec![
        (
            "integers",
            vec![FieldValue::Int64(1), FieldValue::Uint64(2), FieldValue::Int64(3), FieldValue::Uint64(4), FieldValue::Int64(5)],
            vec![Value::Null, Value::int(0), Value::uint(1), Value::int(2), Value::uint(3), Value::int(4), Value::uint(5), Value::int(6)],
        ),
        (
            "strings",
            ["b", "d", "f", "h", "j"].iter().map(|s| FieldValue::String(std::sync::Arc::from(*s))).collect(),
            ["", "a", "b", "c", "d", "e", "f", "g", "h", "i", "j", "k"].iter().map(|s| Value::str(s)).chain(std::iter::once(Value::Null)).collect(),
        ),
    ];
    let mut n = 0u64;
    let mut nt = 0u64;
    for (name, u, probes) in &universes {
        let cands = all_candidates(u);
        report.stats.bump(&format!("exhaustive_candidates:{name}"), cands.len() as u64);
        let res = engine::catch(|| -> Option<(String, String)> {
            for a in &cands {
                for x in probes {
                    if let Some((k, m)) = exclude_violation(a, x, probes) {
                        return Some((k.into(), m));
                    }
                }
                for b in &cands {
                    n += 1;
                    if touching(a, b) {
                        nt += 1;
                    }
                    if let Some((k, m)) = set_violation(a, b, probes) {
                        return Some((k.into(), m));
                    }
                }
            }
            None
        });
        match res {
            Ok(None) => {}
            Ok(Some((k, m))) => report.violation("c06-exhaustive", &format!("c06:{k}"), &m, json!({"universe": name, "detail": m})),
            Err(p) => report.violation("c06-exhaustive", &format!("c06:panic|{}", p.file()), &p.render(), json!({"universe": name})),
        }
        report.stats.samples.push(json!({"universe": name, "sample_candidates": cands.iter().step_by(cands.len() / 6).map(|c| format!("{c:?}")).collect::<Vec<_>>()}));
    }
    report.stats.evaluations += n;
    report.stats.bump("exhaustive_pairs", n);
    for i in 0..nt.min(5000) {
        report.stats.nontrivial(format!("exhaustive-{i}").as_bytes());
    }
    report.extra.insert("exhaustive_subspace".into(), json!({"exhaustive": true, "pairs": n}));
    let cases = ctx.cases(3_000_000, 40_000_000);
    let res = search(ctx, "c06", cases, 8, 120, c06_random_case);
    report.absorb(res, &|b| {
        let mut c = Choices::new(b);
        let strings = c.chance(80);
        json!({"a": format!("{:?}", gen_cand(&mut c, strings)), "b": format!("{:?}", gen_cand(&mut c, strings))})
    });
    report.finish()
}

#[allow(dead_code)]
fn _unused(_: Range<FieldValue>) {
    let _ = int_encodings(0);
}
