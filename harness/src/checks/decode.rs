//! C18: decoding rows (and edge parameters) into structs is faithful.

use std::{collections::BTreeMap, sync::Arc};

use serde::Deserialize;
use serde_json::json;
use trustfall_core::{
    ir::{EdgeParameters, FieldValue},
    TryIntoStruct,
};

use crate::checks::fieldvalue::{gen_float, INT_BOUNDARY, STRINGS};
use crate::checks::{replay_with, Report};
use crate::choice::Choices;
use crate::engine;
use crate::runner::{search, CheckCtx, Stats, Verdict};
use crate::values::Value;

#[derive(Debug, Deserialize)]
struct One<T> {
    x: T,
}

#[derive(Debug, Deserialize)]
struct Two<A, B> {
    x: A,
    w: B,
}

#[derive(Clone, Debug, PartialEq)]
enum Tgt {
    I8,
    I16,
    I32,
    I64,
    I128,
    Isize,
    U8,
    U16,
    U32,
    U64,
    U128,
    Usize,
    F32,
    F64,
    Bool,
    Str,
    Char,
    Opt(Box<Tgt>),
    Vec(Box<Tgt>),
    Tup(Vec<Tgt>),
}

#[derive(Clone, Debug, PartialEq)]
enum Expect {
    Exact(String),
    MustErr,
    Unasserted,
}

fn int_range(t: &Tgt) -> Option<(i128, i128)> {
    Some(match t {
        Tgt::I8 => (i8::MIN as i128, i8::MAX as i128),
        Tgt::I16 => (i16::MIN as i128, i16::MAX as i128),
        Tgt::I32 => (i32::MIN as i128, i32::MAX as i128),
        Tgt::I64 | Tgt::Isize => (i64::MIN as i128, i64::MAX as i128),
        Tgt::I128 => (i128::MIN, i128::MAX),
        Tgt::U8 => (0, u8::MAX as i128),
        Tgt::U16 => (0, u16::MAX as i128),
        Tgt::U32 => (0, u32::MAX as i128),
        Tgt::U64 | Tgt::Usize => (0, u64::MAX as i128),
        Tgt::U128 => (0, i128::MAX),
        _ => return None,
    })
}

fn expect(v: &Value, t: &Tgt) -> Expect {
    if let Some((lo, hi)) = int_range(t) {
        return match v {
            Value::Int { v, .. } => {
                if *v >= lo && *v <= hi { Expect::Exact(format!("{v}")) } else { Expect::MustErr }
            }
            Value::Null => Expect::MustErr,
            _ => Expect::Unasserted,
        };
    }
    match (t, v) {
        (Tgt::Opt(_), Value::Null) => Expect::Exact("None".into()),
        (Tgt::Opt(inner), _) => match expect(v, inner) {
            Expect::Exact(s) => Expect::Exact(format!("Some({s})")),
            other => other,
        },
        (_, Value::Null) => Expect::MustErr,
        (Tgt::F64, Value::Float(f)) => Expect::Exact(format!("{f:?}")),
        (Tgt::F32, Value::Float(f)) => {
            let g = *f as f32;
            if (g as f64) == *f { Expect::Exact(format!("{g:?}")) } else { Expect::Unasserted }
        }
        (Tgt::Bool, Value::Bool(b)) => Expect::Exact(format!("{b}")),
        (Tgt::Str, Value::Str(s)) => Expect::Exact(format!("{s:?}")),
        (Tgt::Char, Value::Str(s)) if s.chars().count() == 1 => Expect::Exact(format!("{:?}", s.chars().next().unwrap())),
        (Tgt::Vec(inner), Value::List(items)) => {
            let parts: Vec<Expect> = items.iter().map(|x| expect(x, inner)).collect();
            combine(parts, "[", "]")
        }
        (Tgt::Tup(ts), Value::List(items)) => {
            if ts.len() != items.len() {
                return Expect::MustErr;
            }
            let parts: Vec<Expect> = items.iter().zip(ts.iter()).map(|(x, t)| expect(x, t)).collect();
            combine(parts, "(", ")")
        }
        _ => Expect::Unasserted,
    }
}

fn combine(parts: Vec<Expect>, open: &str, close: &str) -> Expect {
    if parts.iter().any(|p| *p == Expect::MustErr) {
        return Expect::MustErr;
    }
    if parts.iter().any(|p| *p == Expect::Unasserted) {
        return Expect::Unasserted;
    }
    let strs: Vec<String> = parts
        .into_iter()
        .map(|p| match p {
            Expect::Exact(s) => s,
            _ => unreachable!(),
        })
        .collect();
    Expect::Exact(format!("{open}{}{close}", strs.join(", ")))
}

type Row = BTreeMap<Arc<str>, FieldValue>;

fn dec<T: serde::de::DeserializeOwned + std::fmt::Debug>(row: Row) -> Result<String, String> {
    row.try_into_struct::<One<T>>().map(|o| format!("{:?}", o.x)).map_err(|e| e.to_string())
}

fn dec_params<T: serde::de::DeserializeOwned + std::fmt::Debug>(p: &EdgeParameters) -> Result<String, String> {
    p.try_into_struct::<One<T>>().map(|o| format!("{:?}", o.x)).map_err(|e| e.to_string())
}

macro_rules! targets {
    ($( $id:expr => $tgt:expr, $ty:ty; )+) => {
        fn target(id: usize) -> Tgt { match id { $( $id => $tgt, )+ _ => Tgt::I64 } }
        fn decode_row(id: usize, row: Row) -> Result<String, String> { match id { $( $id => dec::<$ty>(row), )+ _ => dec::<i64>(row) } }
        fn decode_params(id: usize, p: &EdgeParameters) -> Result<String, String> { match id { $( $id => dec_params::<$ty>(p), )+ _ => dec_params::<i64>(p) } }
        const N_TARGETS: usize = [$( $id ),+].len();
    };
}

fn o(t: Tgt) -> Tgt {
    Tgt::Opt(Box::new(t))
}
fn v(t: Tgt) -> Tgt {
    Tgt::Vec(Box::new(t))
}

targets! {
    0 => Tgt::I8, i8;
    1 => Tgt::I16, i16;
    2 => Tgt::I32, i32;
    3 => Tgt::I64, i64;
    4 => Tgt::I128, i128;
    5 => Tgt::Isize, isize;
    6 => Tgt::U8, u8;
    7 => Tgt::U16, u16;
    8 => Tgt::U32, u32;
    9 => Tgt::U64, u64;
    10 => Tgt::U128, u128;
    11 => Tgt::Usize, usize;
    12 => Tgt::F32, f32;
    13 => Tgt::F64, f64;
    14 => Tgt::Bool, bool;
    15 => Tgt::Str, String;
    16 => Tgt::Char, char;
    17 => o(Tgt::I64), Option<i64>;
    18 => o(Tgt::U8), Option<u8>;
    19 => o(Tgt::Str), Option<String>;
    20 => o(Tgt::F64), Option<f64>;
    21 => o(Tgt::I8), Option<i8>;
    22 => v(Tgt::I64), Vec<i64>;
    23 => v(Tgt::U8), Vec<u8>;
    24 => v(Tgt::Str), Vec<String>;
    25 => v(o(Tgt::I32)), Vec<Option<i32>>;
    26 => v(v(Tgt::I16)), Vec<Vec<i16>>;
    27 => o(v(Tgt::U16)), Option<Vec<u16>>;
    28 => Tgt::Tup(vec![Tgt::I64, Tgt::Str]), (i64, String);
    29 => Tgt::Tup(vec![Tgt::U8, Tgt::U8]), (u8, u8);
    30 => Tgt::Tup(vec![Tgt::I32, Tgt::I32, Tgt::I32]), (i32, i32, i32);
    31 => v(Tgt::Tup(vec![Tgt::U32, o(Tgt::Bool)])), Vec<(u32, Option<bool>)>;
    32 => o(Tgt::Bool), Option<bool>;
    33 => v(Tgt::F64), Vec<f64>;
    34 => v(Tgt::U64), Vec<u64>;
    35 => o(Tgt::U64), Option<u64>;
    36 => o(Tgt::I32), Option<i32>;
    37 => v(Tgt::I8), Vec<i8>;
    38 => Tgt::Tup(vec![Tgt::U64, Tgt::I64]), (u64, i64);
    39 => o(Tgt::Tup(vec![Tgt::I16, Tgt::I16])), Option<(i16, i16)>;
}

/// a value aimed at `t`: fits / boundary / overflows by one / wrong sign / null / wrong kind / wrong tuple length
fn gen_for(c: &mut Choices<'_>, t: &Tgt, classes: &mut Vec<&'static str>) -> Value {
    if let Some((lo, hi)) = int_range(t) {
        let pick = c.below(9);
        let clamp = |x: i128| x.clamp(i64::MIN as i128, u64::MAX as i128);
        return match pick {
            0 => {
                classes.push("int:min");
                Value::Int { v: clamp(lo), unsigned: c.chance(128) }
            }
            1 => {
                classes.push("int:max");
                Value::Int { v: clamp(hi), unsigned: c.chance(128) }
            }
            2 => {
                classes.push("int:max+1");
                Value::Int { v: clamp(hi.saturating_add(1)), unsigned: c.chance(128) }
            }
            3 => {
                classes.push("int:min-1");
                Value::Int { v: clamp(lo.saturating_sub(1)), unsigned: false }
            }
            4 => {
                classes.push("int:boundary-pool");
                Value::Int { v: INT_BOUNDARY[c.below(INT_BOUNDARY.len())], unsigned: c.chance(128) }
            }
            5 => {
                classes.push("null");
                Value::Null
            }
            6 => {
                classes.push("wrong-kind");
                [Value::str("1"), Value::Bool(true), Value::Float(1.0), Value::List(vec![])][c.below(4)].clone()
            }
            _ => {
                classes.push("int:small");
                Value::Int { v: c.below(5) as i128 - 1, unsigned: c.chance(128) }
            }
        };
    }
    match t {
        Tgt::F64 | Tgt::F32 => match c.below(6) {
            0 => Value::Null,
            1 => Value::int(3),
            _ => Value::Float(if c.chance(128) { gen_float(c) } else { [0.5, -2.0, 1e10, 0.1][c.below(4)] }),
        },
        Tgt::Bool => match c.below(5) {
            0 => Value::Null,
            1 => Value::int(1),
            _ => Value::Bool(c.chance(128)),
        },
        Tgt::Str => match c.below(5) {
            0 => Value::Null,
            1 => Value::int(1),
            _ => Value::str(STRINGS[c.below(STRINGS.len())]),
        },
        Tgt::Char => Value::str(["a", "ä", "", "ab", "\u{10348}"][c.below(5)]),
        Tgt::Opt(inner) => {
            if c.chance(70) {
                classes.push("null-for-option");
                Value::Null
            } else {
                gen_for(c, inner, classes)
            }
        }
        Tgt::Vec(inner) => match c.below(8) {
            0 => Value::Null,
            1 => Value::int(1),
            _ => Value::List((0..c.below(4)).map(|_| gen_for(c, inner, classes)).collect()),
        },
        Tgt::Tup(ts) => match c.below(8) {
            0 => {
                classes.push("tuple:too-short");
                Value::List(ts.iter().skip(1).map(|t| gen_for(c, t, classes)).collect())
            }
            1 => {
                classes.push("tuple:too-long");
                let mut items: Vec<Value> = ts.iter().map(|t| gen_for(c, t, classes)).collect();
                items.push(Value::int(0));
                Value::List(items)
            }
            2 => Value::Null,
            _ => Value::List(ts.iter().map(|t| gen_for(c, t, classes)).collect()),
        },
        _ => Value::Null,
    }
}

fn make_params(map: &Row) -> Option<EdgeParameters> {
    let contents: serde_json::Value = serde_json::to_value(map).ok()?;
    serde_json::from_value(json!({ "contents": contents })).ok()
}

pub fn c18_case(bytes: &[u8], stats: &mut Stats, counting: bool) -> Verdict {
    let mut c = Choices::new(bytes);
    let id = c.below(N_TARGETS);
    let t = target(id);
    let mut classes = vec![];
    let val = gen_for(&mut c, &t, &mut classes);
    let use_params = c.chance(50);
    let two = c.chance(40);
    let mut row: Row = BTreeMap::new();
    row.insert(Arc::from("x"), val.to_field_value());
    // extra outputs the struct does not mention must be ignored
    row.insert(Arc::from("y_extra"), FieldValue::Int64(7));
    row.insert(Arc::from("a_extra"), FieldValue::List(vec![FieldValue::Null].into()));
    let exp = expect(&val, &t);
    if counting {
        stats.label(match &exp {
            Expect::Exact(_) => "expect:exact",
            Expect::MustErr => "expect:error",
            Expect::Unasserted => "expect:unasserted",
        });
        for cl in &classes {
            stats.label(cl);
        }
        let boundary = classes.iter().any(|c| matches!(*c, "int:min" | "int:max" | "int:max+1" | "int:min-1" | "int:boundary-pool" | "tuple:too-short" | "tuple:too-long"));
        if boundary && stats.nontrivial(format!("{id}{classes:?}{}", val.canon()).as_bytes()) {
            stats.sample(|| json!({"target": format!("{t:?}"), "value": val.to_json(), "expected": format!("{exp:?}")}));
        }
    }
    let got = engine::catch(|| {
        if two {
            // a second, always-valid field next to the one under test
            let mut r2 = row.clone();
            r2.insert(Arc::from("w"), FieldValue::String(Arc::from("ok")));
            // the first field is decoded with the generic path; `w` must come through unchanged
            let a = decode_row(id, r2.clone());
            let b = r2.try_into_struct::<Two<serde::de::IgnoredAny, String>>().map(|t| t.w).map_err(|e| e.to_string());
            match (&a, b) {
                (_, Ok(w)) if w != "ok" => Err(format!("second field decoded as {w:?}")),
                (_, Err(e)) => Err(format!("valid second field failed to decode: {e}")),
                _ => a,
            }
        } else if use_params {
            match make_params(&row) {
                Some(p) => decode_params(id, &p),
                None => decode_row(id, row.clone()),
            }
        } else {
            decode_row(id, row.clone())
        }
    });
    let describe = || format!("target {t:?}, value {val:?}");
    match (got, exp) {
        (Err(p), _) => {
            if p.message.contains("not yet implemented") {
                return Verdict::Discard("enum-todo".into());
            }
            Verdict::Fail { sig: format!("c18:decode-panicked|{}", p.file()), msg: format!("{}\n{}", p.render(), describe()) }
        }
        (Ok(Ok(s)), Expect::Exact(want)) => {
            if s == want {
                Verdict::Pass
            } else {
                Verdict::Fail { sig: "c18:decoded-value-differs".into(), msg: format!("decoded {s}, expected {want}\n{}", describe()) }
            }
        }
        (Ok(Err(e)), Expect::Exact(want)) => {
            Verdict::Fail { sig: "c18:representable-value-rejected".into(), msg: format!("error `{e}`, expected {want}\n{}", describe()) }
        }
        (Ok(Ok(s)), Expect::MustErr) => {
            Verdict::Fail { sig: "c18:unrepresentable-value-accepted".into(), msg: format!("decoded {s}, expected an error\n{}", describe()) }
        }
        (Ok(Err(_)), Expect::MustErr) => Verdict::Pass,
        (Ok(_), Expect::Unasserted) => Verdict::Pass,
    }
}

pub fn c18(ctx: &CheckCtx) -> i32 {
    if ctx.replay.is_some() {
        return replay_with(ctx, &|_s, b| c18_case(b, &mut Stats::default(), false));
    }
    let mut report = Report::new(
        ctx,
        "choice stream -> (one of 40 target field types: i8..i64, i128, isize, u8..u64, u128, usize, f32, f64, bool, String, \
         char, Option/Vec/tuple nestings of them; a value aimed at that target: fits / exact min / exact max / max+1 / min-1 / \
         boundary pool in either integer encoding / null / wrong kind / tuple too short or too long), decoded from a result row \
         with extra outputs, from EdgeParameters, or next to a second valid field. Model: Exact(v) when representable, MustErr \
         when an integer does not fit, a tuple length differs or null meets a non-Option; cross-kind pairs are unasserted \
         (only no-panic). Non-trivial: boundary / overflow-by-one / tuple-length class; distinct by (target, classes, value).",
    );
    report.assume("enum values are not decoded (the deserializer has a documented todo!() for them)");
    let cases = ctx.cases(12_000_000, 100_000_000);
    let res = search(ctx, "c18", cases, 6, 80, c18_case);
    report.absorb(res, &|b| {
        let mut c = Choices::new(b);
        let id = c.below(N_TARGETS);
        let t = target(id);
        let val = gen_for(&mut c, &t, &mut vec![]);
        json!({"target": format!("{t:?}"), "value": val.to_json()})
    });
    report.finish()
}
