//! C27, Rust side: emits differential cases for the Python bindings as JSON lines
//! (`tfcheck C27-EMIT <n>`); the Python runner (/verif/py/run_c27.py) replays them through `pytrustfall`
//! over a mirror adapter that answers from the tables recorded here.
//!
//! A case carries: schema, query, arguments, per-vertex (types, properties), the starting-vertex and neighbour
//! tables exactly as the honest adapter answered them for the parameter values the engine passed, and the rows
//! (or the argument error) of the Rust engine. Values use the tagged JSON of `Value::to_json`
//! (`{"u": "<int beyond i64 or unsigned>"}`, `{"f": "<shortest round-trip float>"}`).

use std::{cell::RefCell, collections::BTreeMap, rc::Rc, sync::Arc};

use proptest::{
    collection::vec,
    prelude::any,
    strategy::{Strategy, ValueTree},
    test_runner::{Config, RngSeed, TestRunner},
};
use serde_json::{json, Value as Json};
use trustfall_core::{
    interpreter::{Adapter, AsVertex, ContextIterator, ContextOutcomeIterator, ResolveEdgeInfo, ResolveInfo, VertexIterator},
    ir::{EdgeParameters, FieldValue},
};

use crate::{
    adapter::{params_to_map, GraphAdapter, GV},
    checks::world::{default_gen_config, WORLD_MAX_LEN, WORLD_MIN_LEN},
    choice::{hex, Choices},
    engine::{self, ExecOutcome},
    worldcase::{compile_case, decode_world_case},
};

#[derive(Default)]
struct Tables {
    /// (entry point, params) -> ids
    starts: Vec<Json>,
    /// (edge, params) -> {vertex id -> ids}
    neighbors: Vec<(String, Json, BTreeMap<u32, Vec<u32>>)>,
}

struct TableAdapter {
    inner: GraphAdapter,
    tables: Rc<RefCell<Tables>>,
}

fn params_json(p: &EdgeParameters) -> Json {
    Json::Object(params_to_map(p).iter().map(|(k, v)| (k.clone(), v.to_json())).collect())
}

impl<'a> Adapter<'a> for TableAdapter {
    type Vertex = GV;

    fn resolve_starting_vertices(&self, edge_name: &Arc<str>, parameters: &EdgeParameters, _resolve_info: &ResolveInfo) -> VertexIterator<'a, Self::Vertex> {
        let ids = self.inner.world.entry_vertices(edge_name, &params_to_map(parameters));
        self.tables.borrow_mut().starts.push(json!({"edge": edge_name.to_string(), "params": params_json(parameters), "ids": ids}));
        Box::new(ids.into_iter().map(|id| GV { id }))
    }

    fn resolve_property<V: AsVertex<Self::Vertex> + 'a>(
        &self,
        contexts: ContextIterator<'a, V>,
        type_name: &Arc<str>,
        property_name: &Arc<str>,
        resolve_info: &ResolveInfo,
    ) -> ContextOutcomeIterator<'a, V, FieldValue> {
        self.inner.resolve_property(contexts, type_name, property_name, resolve_info)
    }

    fn resolve_neighbors<V: AsVertex<Self::Vertex> + 'a>(
        &self,
        contexts: ContextIterator<'a, V>,
        _type_name: &Arc<str>,
        edge_name: &Arc<str>,
        parameters: &EdgeParameters,
        _resolve_info: &ResolveEdgeInfo,
    ) -> ContextOutcomeIterator<'a, V, VertexIterator<'a, Self::Vertex>> {
        // the whole table for this (edge, params) is recorded up front: the Python run may ask for other vertices
        // only if the engines disagree, and then the mirror reports it
        let params = params_to_map(parameters);
        let mut table = BTreeMap::new();
        for id in 0..self.inner.world.data.vertices.len() as u32 {
            table.insert(id, self.inner.world.neighbors(id, edge_name, &params));
        }
        self.tables.borrow_mut().neighbors.push((edge_name.to_string(), params_json(parameters), table.clone()));
        Box::new(contexts.map(move |ctx| {
            let neighbors: VertexIterator<'a, GV> = match ctx.active_vertex::<GV>() {
                None => Box::new(std::iter::empty()),
                Some(gv) => Box::new(table.get(&gv.id).cloned().unwrap_or_default().into_iter().map(|id| GV { id })),
            };
            (ctx, neighbors)
        }))
    }

    fn resolve_coercion<V: AsVertex<Self::Vertex> + 'a>(
        &self,
        contexts: ContextIterator<'a, V>,
        type_name: &Arc<str>,
        coerce_to_type: &Arc<str>,
        resolve_info: &ResolveInfo,
    ) -> ContextOutcomeIterator<'a, V, bool> {
        self.inner.resolve_coercion(contexts, type_name, coerce_to_type, resolve_info)
    }
}

/// prints `n` cases as JSON lines; pure function of the seed
pub fn c27_emit(seed: u64, n: usize) -> i32 {
    let cfg = default_gen_config();
    let config = Config { rng_seed: RngSeed::Fixed(seed ^ 0xC27), failure_persistence: None, ..Config::default() };
    let mut runner = TestRunner::new(config);
    let strategy = vec(any::<u8>(), WORLD_MIN_LEN..=WORLD_MAX_LEN);
    let mut emitted = 0usize;
    let mut attempts = 0usize;
    while emitted < n && attempts < n * 4 {
        attempts += 1;
        let bytes = strategy.new_tree(&mut runner).expect("generate").current();
        let case = decode_world_case(&mut Choices::new(&bytes), &cfg);
        let Ok(compiled) = compile_case(&case) else { continue };
        let tables = Rc::new(RefCell::new(Tables::default()));
        #[allow(clippy::arc_with_non_send_sync)]
        let adapter = Arc::new(TableAdapter { inner: GraphAdapter::new(case.world.clone()), tables: tables.clone() });
        let expected = match engine::execute(adapter, compiled.iq.clone(), engine::args_to_engine(&case.args), 400) {
            ExecOutcome::Budget => continue,
            ExecOutcome::Rows(rows) => {
                if rows.len() >= 400 {
                    continue;
                }
                let rows: Vec<Json> = rows
                    .iter()
                    .map(|r| Json::Object(engine::row_from_engine(r).iter().map(|(k, v)| (k.clone(), v.to_json())).collect()))
                    .collect();
                json!({"rows": rows})
            }
            ExecOutcome::ArgError(e) => json!({"arg_error": e}),
            ExecOutcome::Panic(..) => continue,
        };
        let world = &case.world;
        let vertices: Vec<Json> = world
            .data
            .vertices
            .iter()
            .map(|v| {
                let mut types: Vec<String> = world.schema.types.iter().filter(|t| world.schema.is_subtype(&t.name, &v.ty)).map(|t| t.name.clone()).collect();
                if !types.contains(&v.ty) {
                    types.push(v.ty.clone());
                }
                json!({
                    "type": v.ty,
                    "types": types,
                    "props": v.props.iter().map(|(k, x)| (k.clone(), x.to_json())).collect::<serde_json::Map<_, _>>(),
                })
            })
            .collect();
        let t = tables.borrow();
        let line = json!({
            "choices": hex(&bytes),
            "schema": case.sdl,
            "query": case.query_text,
            "args": case.args.iter().map(|(k, v)| (k.clone(), v.to_json())).collect::<serde_json::Map<_, _>>(),
            "vertices": vertices,
            "starts": t.starts,
            "neighbors": t.neighbors.iter().map(|(e, p, tab)| json!({"edge": e, "params": p, "table": tab.iter().map(|(k, v)| (k.to_string(), json!(v))).collect::<serde_json::Map<_, _>>()})).collect::<Vec<_>>(),
            "expected": expected,
            "features": case.features.labels(),
        });
        println!("{line}");
        emitted += 1;
    }
    0
}
