//! C10: the frontend never panics on any query text. Also feeds mutated-but-accepted queries to C11.

use std::collections::BTreeMap;

use serde_json::json;
use trustfall_core::{schema::Schema, test_types::TestGraphQLQuery};

use crate::checks::ir::ir_invariant_violation;
use crate::checks::{replay_with, Report};
use crate::choice::Choices;
use crate::engine::{self, CompileOutcome};
use crate::runner::{search, CheckCtx, Stats, Verdict};
use crate::schema_ast::{gen_schema, SchemaDoc, SchemaGenConfig};
use crate::values::ALL_OPS;
use crate::worldcase::first_line;

// ---------------------------------------------------------------------------------------------
// (i) loose, grammar-level generator over a generated schema

struct Loose<'s> {
    schema: &'s SchemaDoc,
    nodes: usize,
    tag_counter: usize,
    tags: Vec<String>,
    features: Vec<&'static str>,
}

const LITERALS: [&str; 16] = [
    "1", "-1", "0", "18446744073709551615", "99999999999999999999999", "1.5", "-0.0", "\"s\"", "\"\"", "true", "null",
    "FOO", "{a: 1}", "[1, 2]", "$x", "[[1], null]",
];

impl Loose<'_> {
    fn feat(&mut self, f: &'static str) {
        if !self.features.contains(&f) {
            self.features.push(f);
        }
    }

    fn filter_directive(&mut self, c: &mut Choices<'_>) -> String {
        let op = match c.below(12) {
            0 => {
                self.feat("unknown_filter_op");
                ["\"approx\"", "\"\"", "\"\u{e9}\"", "\"=\u{65e5}\"", "\" =\"", "\"==\"", "null", "[\"=\"]", "EQ"][c.below(9)].to_string()
            }
            1 => {
                self.feat("non_string_op");
                "1".to_string()
            }
            _ => format!("\"{}\"", ALL_OPS[c.below(ALL_OPS.len())].name()),
        };
        let operand = |me: &mut Self, c: &mut Choices<'_>| -> String {
            match c.below(10) {
                0 => {
                    me.feat("bad_operand_name");
                    [
                        "\"x\"", "\"$\"", "\"%\"", "\"$1a\"", "\"$a-b\"", "3", "null", "\"%%t\"", "\"\"", "\"\u{e9}tag\"", "\"\u{65e5}\u{672c}\"",
                        "\"\u{1f980}\"", "\"$\u{e9}\"", "\"%\u{65e5}\"", "\" $x\"", "\"$x \"", "\"$_\"", "\"\\u0024x\"", "\"a\\\"b\"", "[\"$x\"]", "true",
                        "1.5", "{a: \"$x\"}", "$x", "FOO",
                    ][c.below(25)]
                    .to_string()
                }
                1..=4 => {
                    if me.tags.is_empty() || c.chance(60) {
                        "\"%undefined_tag\"".to_string()
                    } else {
                        format!("\"%{}\"", me.tags[c.below(me.tags.len())])
                    }
                }
                _ => format!("\"$v{}\"", c.below(4)),
            }
        };
        match c.below(10) {
            0 => {
                self.feat("filter_without_op");
                let o = operand(self, c);
                format!("@filter(value: [{o}])")
            }
            1 => format!("@filter(op: {op})"),
            2 => {
                self.feat("filter_value_not_list");
                format!("@filter(op: {op}, value: \"$v0\")")
            }
            3 => {
                self.feat("filter_two_operands");
                let a = operand(self, c);
                let b = operand(self, c);
                format!("@filter(op: {op}, value: [{a}, {b}])")
            }
            4 => {
                self.feat("filter_extra_argument");
                let o = operand(self, c);
                format!("@filter(op: {op}, value: [{o}], extra: 1)")
            }
            _ => {
                let o = operand(self, c);
                format!("@filter(op: {op}, value: [{o}])")
            }
        }
    }

    fn directive(&mut self, c: &mut Choices<'_>) -> String {
        match c.below(16) {
            0..=3 => self.filter_directive(c),
            4 | 5 => match c.below(6) {
                0 => format!(
                    "@output(name: {})",
                    ["\"bad name!\"", "\"\"", "\"\u{e9}\"", "\"\u{65e5}\u{672c}\"", "\"1a\"", "\"_\"", "\"a\\\"b\"", "[\"a\"]", "null", "$x"][c.below(10)]
                ),
                1 => "@output(name: 3)".to_string(),
                2 => "@output(name: \"a\", name: \"b\")".to_string(),
                3 => "@output(nam: \"a\")".to_string(),
                4 => format!("@output(name: \"o{}\")", c.below(6)),
                _ => "@output".to_string(),
            },
            6 | 7 => match c.below(5) {
                0 => format!(
                    "@tag(name: {})",
                    ["\"bad-name\"", "\"\"", "\"\u{e9}\"", "\"\u{65e5}\u{672c}\"", "\"1a\"", "\"%t\"", "\"$t\"", "3", "[\"a\"]"][c.below(9)]
                ),
                1 => "@tag(name: null)".to_string(),
                2 => "@tag".to_string(),
                _ => {
                    self.tag_counter += 1;
                    let n = format!("t{}", self.tag_counter);
                    self.tags.push(n.clone());
                    format!("@tag(name: \"{n}\")")
                }
            },
            8 => if c.chance(40) { "@optional(x: 1)".into() } else { "@optional".into() },
            9 => {
                let d = ["1", "2", "3", "0", "-1", "1.5", "\"x\"", "null", "99999999999999999999999", "$d"][c.below(10)];
                match c.below(8) {
                    0 => "@recurse".to_string(),
                    1 => format!("@recurse(depth: {d}, depth: 2)"),
                    2 => format!("@recurse(deep: {d})"),
                    _ => format!("@recurse(depth: {d})"),
                }
            }
            10 | 11 => if c.chance(30) { "@fold(x: 1)".into() } else { "@fold".into() },
            12 | 13 => match c.below(6) {
                0 => format!("@transform(op: {})", ["\"sum\"", "\"\"", "\"\u{e9}\"", "\"count \"", "\"COUNT\"", "[\"count\"]", "null"][c.below(7)]),
                1 => "@transform(op: 1)".to_string(),
                2 => "@transform".to_string(),
                3 => "@transform(op: \"count\", op: \"count\")".to_string(),
                _ => "@transform(op: \"count\")".to_string(),
            },
            14 => {
                self.feat("unknown_directive");
                "@frobnicate(x: 1)".to_string()
            }
            _ => String::new(),
        }
    }

    fn selset(&mut self, c: &mut Choices<'_>, ty: Option<&str>, depth: usize, out: &mut String) {
        out.push_str("{ ");
        let n = 1 + c.below(4);
        for _ in 0..n {
            if self.nodes > 28 {
                break;
            }
            self.nodes += 1;
            let kind = c.below(20);
            if kind == 0 {
                self.feat("fragment_spread");
                out.push_str("...F ");
                continue;
            }
            if kind <= 3 && depth < 5 {
                // inline fragment
                let subs = ty.map(|t| self.schema.strict_subtypes(t)).unwrap_or_default();
                let target: Option<String> = match c.below(5) {
                    0 => {
                        self.feat("inline_fragment_without_type");
                        None
                    }
                    1 => Some("Nonexistent".to_string()),
                    2 => Some(self.schema.types[c.below(self.schema.types.len())].name.clone()),
                    _ => {
                        if subs.is_empty() {
                            ty.map(|t| t.to_string())
                        } else {
                            Some(subs[c.below(subs.len())].clone())
                        }
                    }
                };
                out.push_str("... ");
                if let Some(t) = &target {
                    out.push_str(&format!("on {t} "));
                }
                if c.chance(30) {
                    self.feat("directive_on_inline_fragment");
                    let d = self.directive(c);
                    out.push_str(&d);
                    out.push(' ');
                }
                self.feat("inline_fragment");
                let inner_ty = target.clone().filter(|t| self.schema.is_vertex_type(t)).or(ty.map(|t| t.to_string()));
                self.selset(c, inner_ty.as_deref(), depth + 1, out);
                continue;
            }
            // a field
            let props = ty.map(|t| self.schema.properties(t)).unwrap_or_default();
            let edges = ty.map(|t| self.schema.edges(t)).unwrap_or_default();
            let pick = c.below(12);
            let (name, target, params): (String, Option<String>, Vec<(String, String)>) = if pick == 0 {
                self.feat("unknown_field");
                ("nonexistent_field".into(), None, vec![])
            } else if pick == 1 {
                ("__typename".into(), None, vec![])
            } else if pick == 2 {
                self.feat("introspection_field");
                ("__schema".into(), None, vec![])
            } else if pick <= 6 && !edges.is_empty() && depth < 5 {
                let e = edges[c.below(edges.len())];
                (
                    e.name.clone(),
                    Some(e.ty.base.clone()),
                    e.params.iter().map(|p| (p.name.clone(), p.ty.render())).collect(),
                )
            } else if !props.is_empty() {
                let p = props[c.below(props.len())];
                (p.name.clone(), None, vec![])
            } else {
                ("__typename".into(), None, vec![])
            };
            if c.chance(50) {
                out.push_str(&format!("al{}: ", c.below(3)));
            }
            out.push_str(&name);
            // arguments
            if (!params.is_empty() && c.chance(170)) || c.chance(20) {
                out.push('(');
                let mut parts = vec![];
                for (pn, _) in &params {
                    if c.chance(200) {
                        parts.push(format!("{pn}: {}", LITERALS[c.below(LITERALS.len())]));
                    }
                }
                if c.chance(30) {
                    self.feat("unknown_edge_argument");
                    parts.push(format!("bogus: {}", LITERALS[c.below(LITERALS.len())]));
                }
                if c.chance(16) {
                    if let Some((pn, _)) = params.first() {
                        self.feat("duplicated_edge_argument");
                        parts.push(format!("{pn}: 1"));
                    }
                }
                if parts.is_empty() {
                    parts.push("bogus: 1".into());
                }
                out.push_str(&parts.join(", "));
                out.push(')');
            }
            // directives
            let nd = match c.below(8) {
                0 | 1 => 0,
                2..=4 => 1,
                5 | 6 => 2,
                _ => 3 + c.below(2),
            };
            for _ in 0..nd {
                let d = self.directive(c);
                if !d.is_empty() {
                    out.push(' ');
                    out.push_str(&d);
                }
            }
            out.push(' ');
            // sub-selection
            match &target {
                Some(t) => {
                    if c.chance(16) {
                        self.feat("edge_without_selection");
                    } else {
                        let t = t.clone();
                        self.selset(c, Some(&t), depth + 1, out);
                    }
                }
                None => {
                    if c.chance(12) && depth < 5 {
                        self.feat("selection_under_property");
                        self.selset(c, ty, depth + 1, out);
                    }
                }
            }
        }
        out.push_str("} ");
    }
}

pub fn gen_loose_document(c: &mut Choices<'_>, schema: &SchemaDoc) -> (String, Vec<&'static str>) {
    let mut l = Loose { schema, nodes: 0, tag_counter: 0, tags: vec![], features: vec![] };
    let mut out = String::new();
    let n_ops = match c.below(16) {
        0 => 0,
        1 => 2,
        2 => 3,
        3 => 4,
        _ => 1,
    };
    if n_ops != 1 {
        l.feat("operation_count_not_one");
    }
    if c.chance(20) {
        // one to three fragment definitions (several of them: the document keeps them in a hash map)
        l.feat("fragment_definition");
        let n = 1 + c.below(3);
        for name in ["F", "G", "H"].iter().take(n) {
            let ty = &schema.types[c.below(schema.types.len())].name;
            out.push_str(&format!("fragment {name} on {ty} {{ __typename }} "));
        }
        if n >= 2 {
            l.feat("several_fragment_definitions");
        }
    }
    for i in 0..n_ops {
        match c.below(12) {
            0 => {
                l.feat("mutation_or_subscription");
                out.push_str(if c.chance(128) { "mutation " } else { "subscription " });
            }
            1 => out.push_str(&format!("query Q{i} ")),
            2 => {
                l.feat("variable_definition");
                out.push_str(&format!("query Q{i}($x: Int) "));
            }
            3 => {
                l.feat("directive_on_operation");
                out.push_str(&format!("query Q{i} @optional "));
            }
            _ => {
                if n_ops > 1 {
                    out.push_str(&format!("query Q{i} "));
                }
            }
        }
        // root selection set
        out.push_str("{ ");
        let n_roots = match c.below(12) {
            0 => 2,
            1 => 0,
            _ => 1,
        };
        if n_roots != 1 {
            l.feat("root_count_not_one");
        }
        let entries = schema.edges(&schema.root);
        for _ in 0..n_roots {
            match c.below(14) {
                0 => {
                    l.feat("fragment_at_root");
                    out.push_str("... on RootQ { __typename } ");
                }
                1 => {
                    l.feat("unknown_entrypoint");
                    out.push_str("NoSuchEntry { __typename } ");
                }
                _ => {
                    let e = entries[c.below(entries.len())];
                    if c.chance(20) {
                        out.push_str("r: ");
                    }
                    out.push_str(&e.name);
                    if !e.params.is_empty() && c.chance(150) {
                        let parts: Vec<String> = e
                            .params
                            .iter()
                            .map(|p| format!("{}: {}", p.name, LITERALS[c.below(LITERALS.len())]))
                            .collect();
                        out.push_str(&format!("({})", parts.join(", ")));
                    }
                    if c.chance(16) {
                        l.feat("directive_on_root_field");
                        let d = l.directive(c);
                        out.push(' ');
                        out.push_str(&d);
                    }
                    out.push(' ');
                    let t = e.ty.base.clone();
                    l.selset(c, Some(&t), 1, &mut out);
                }
            }
        }
        out.push_str("} ");
    }
    (out, l.features)
}

// ---------------------------------------------------------------------------------------------
// (ii) token-level mutation of the repository's own test queries over the repository's schemas

pub struct RepoQuery {
    pub name: String,
    pub schema_name: String,
    pub text: String,
}

pub struct RepoCorpus {
    pub schemas: BTreeMap<String, (String, Schema)>,
    pub queries: Vec<RepoQuery>,
}

pub fn repo_corpus() -> &'static RepoCorpus {
    // one copy per thread (leaked): a process-wide static would make the whole harness depend on `Schema: Sync`,
    // which is exactly what C24 checks, so a lost bound must not stop the other checks from building
    thread_local! {
        static C: &'static RepoCorpus = Box::leak(Box::new(load_repo_corpus()));
    }
    C.with(|c| *c)
}

fn load_repo_corpus() -> RepoCorpus {
    {
        let mut schemas = BTreeMap::new();
        let sdir = "/repo/trustfall_core/test_data/schemas";
        for name in ["filesystem", "numbers", "nullables", "recurses", "parameterized_edges"] {
            if let Ok(text) = std::fs::read_to_string(format!("{sdir}/{name}.graphql")) {
                if let Ok(Ok(s)) = engine::parse_schema(&text) {
                    schemas.insert(name.to_string(), (text, s));
                }
            }
        }
        if let Ok(text) = std::fs::read_to_string("/repo/trustfall_core/src/schema/adapter/schema.graphql") {
            if let Ok(Ok(s)) = engine::parse_schema(&text) {
                schemas.insert("schema".to_string(), (text, s));
            }
        }
        let mut queries = vec![];
        for dir in ["valid_queries", "frontend_errors", "parse_errors", "execution_errors"] {
            let d = format!("/repo/trustfall_core/test_data/tests/{dir}");
            let mut names: Vec<String> = std::fs::read_dir(&d)
                .map(|rd| {
                    rd.filter_map(|e| e.ok())
                        .filter_map(|e| e.file_name().to_str().map(|s| s.to_string()))
                        .filter(|n| n.ends_with(".graphql.ron"))
                        .collect()
                })
                .unwrap_or_default();
            names.sort();
            for n in names {
                let Ok(text) = std::fs::read_to_string(format!("{d}/{n}")) else { continue };
                let Ok(q) = ron::from_str::<TestGraphQLQuery>(&text) else { continue };
                if schemas.contains_key(&q.schema_name) {
                    queries.push(RepoQuery { name: format!("{dir}/{n}"), schema_name: q.schema_name, text: q.query });
                }
            }
        }
        RepoCorpus { schemas, queries }
    }
}

pub fn tokenize(s: &str) -> Vec<String> {
    let mut out = vec![];
    let cs: Vec<char> = s.chars().collect();
    let mut i = 0;
    while i < cs.len() {
        let ch = cs[i];
        if ch.is_whitespace() {
            i += 1;
        } else if ch == '#' {
            while i < cs.len() && cs[i] != '\n' {
                i += 1;
            }
        } else if ch == '"' {
            let start = i;
            i += 1;
            while i < cs.len() && cs[i] != '"' {
                if cs[i] == '\\' {
                    i += 1;
                }
                i += 1;
            }
            i = (i + 1).min(cs.len());
            out.push(cs[start..i].iter().collect());
        } else if ch.is_alphanumeric() || ch == '_' {
            let start = i;
            while i < cs.len() && (cs[i].is_alphanumeric() || cs[i] == '_') {
                i += 1;
            }
            out.push(cs[start..i].iter().collect());
        } else if ch == '.' && i + 2 < cs.len() && cs[i + 1] == '.' && cs[i + 2] == '.' {
            out.push("...".into());
            i += 3;
        } else {
            out.push(ch.to_string());
            i += 1;
        }
    }
    out
}

const DICT: [&str; 48] = [
    "\"\"", "\"\u{e9}\"", "\"\u{65e5}\u{672c}\"", "\"$\u{e9}\"", "\"%\"", "\"$\"", "\"\u{1f980}\"", "\" \"",
    "@filter", "@output", "@tag", "@optional", "@recurse", "@fold", "@transform", "(", ")", "{", "}", "[", "]", ":",
    ",", "...", "on", "op", "value", "name", "depth", "\"count\"", "\"=\"", "\"<\"", "\"one_of\"", "\"regex\"",
    "\"is_null\"", "\"$x\"", "\"%t\"", "1", "0", "-1", "null", "true", "FOO", "query", "mutation", "fragment", "$v",
    "__typename",
];

pub fn join_tokens(t: &[String]) -> String {
    let mut s = String::new();
    for (i, tok) in t.iter().enumerate() {
        if i > 0 && !(tok.starts_with('@') && false) {
            // `@` followed by a name must not be separated
            let prev = &t[i - 1];
            if prev != "@" && prev != "$" {
                s.push(' ');
            }
        }
        s.push_str(tok);
    }
    s
}

pub fn gen_spliced_document(c: &mut Choices<'_>) -> Option<(String, String, String)> {
    let corpus = repo_corpus();
    if corpus.queries.is_empty() {
        return None;
    }
    let q = &corpus.queries[c.below(corpus.queries.len())];
    let mut toks = tokenize(&q.text);
    let n_mut = 1 + c.below(4);
    for _ in 0..n_mut {
        if toks.is_empty() {
            break;
        }
        match c.below(6) {
            0 => {
                let i = c.below(toks.len());
                toks.remove(i);
            }
            1 => {
                let i = c.below(toks.len());
                let t = toks[i].clone();
                toks.insert(i, t);
            }
            2 => {
                let i = c.below(toks.len() + 1);
                toks.insert(i, DICT[c.below(DICT.len())].to_string());
            }
            3 => {
                let i = c.below(toks.len());
                toks[i] = DICT[c.below(DICT.len())].to_string();
            }
            4 => {
                // splice a token range from another query over the same schema
                let same: Vec<&RepoQuery> = corpus.queries.iter().filter(|o| o.schema_name == q.schema_name).collect();
                let other = tokenize(&same[c.below(same.len())].text);
                if !other.is_empty() {
                    let a = c.below(other.len());
                    let len = 1 + c.below(12.min(other.len() - a));
                    let at = c.below(toks.len() + 1);
                    for (k, t) in other[a..a + len].iter().enumerate() {
                        toks.insert(at + k, t.clone());
                    }
                }
            }
            _ => {
                let i = c.below(toks.len());
                let j = c.below(toks.len());
                toks.swap(i, j);
            }
        }
    }
    Some((q.schema_name.clone(), q.name.clone(), join_tokens(&toks)))
}

// ---------------------------------------------------------------------------------------------
// (iii) a valid generated query (rich in folds, tags, count filters) with one to three point mutations at AST level:
// the error-recovery paths of the frontend then run in the middle of otherwise valid, complex context

use crate::query_ast::{gen_query, Arg, EdgeSel, Filter, PropSel, Query, QueryGenConfig, Sel};

fn for_each_prop<'a>(e: &'a mut EdgeSel, f: &mut dyn FnMut(&'a mut PropSel)) {
    for s in e.body.iter_mut() {
        match s {
            Sel::Prop(p) => f(p),
            Sel::Edge(ch) => for_each_prop(ch, f),
        }
    }
}

fn for_each_edge(e: &mut EdgeSel, f: &mut dyn FnMut(&mut EdgeSel)) {
    for s in e.body.iter_mut() {
        if let Sel::Edge(ch) = s {
            f(ch);
            for_each_edge(ch, f);
        }
    }
}

/// every filter of the query (property filters and fold-count filters), visited in document order
fn for_each_filter(e: &mut EdgeSel, f: &mut dyn FnMut(&mut Filter)) {
    if let Some(cs) = e.count.as_mut() {
        for fl in cs.filters.iter_mut() {
            f(fl);
        }
    }
    for s in e.body.iter_mut() {
        match s {
            Sel::Prop(p) => {
                for fl in p.filters.iter_mut() {
                    f(fl);
                }
            }
            Sel::Edge(ch) => for_each_filter(ch, f),
        }
    }
}

pub const POINT_MUTATIONS: [&str; 15] = [
    "count_tag_used_by_earlier_vertex",
    "tag_operand_undefined",
    "filter_op_replaced",
    "property_renamed_to_unknown",
    "variable_shared_across_types",
    "edge_kind_toggled",
    "output_name_duplicated",
    "tag_used_before_definition",
    "coercion_to_unrelated_type",
    "operand_kind_swapped",
    "tag_name_duplicated",
    "edge_renamed_to_unknown",
    "filter_added_to_first_property",
    "recurse_depth_zero",
    "output_name_invalid",
];

fn mutate_query(c: &mut Choices<'_>, schema: &SchemaDoc, q: &mut Query) -> Vec<&'static str> {
    let n = 1 + c.below(3);
    let mut applied = vec![];
    for _ in 0..n {
        let label = POINT_MUTATIONS[c.below(POINT_MUTATIONS.len())];
        let pick = c.below(64);
        let aux = c.below(64);
        let mut count = 0usize;
        let mut done = false;
        match label {
            "count_tag_used_by_earlier_vertex" => {
                // well-typed on purpose (an Int property of the fold's own parent vertex compared with the fold's count), so
                // that the ordering rule is the only thing that can reject the query
                use crate::checks::meta::{anode_at, edge_at, edge_at_mut, edge_paths};
                let ann = crate::query_ast::annotate(schema, q);
                let folds: Vec<Vec<usize>> = edge_paths(q).into_iter().filter(|p| !p.is_empty() && edge_at(q, p).fold).collect();
                if folds.is_empty() {
                    continue;
                }
                let path = folds[(pick * folds.len()) >> 6].clone();
                let parent = &path[..path.len() - 1];
                let parent_ty = anode_at(&ann.root, q, parent).ty.clone();
                let int_props: Vec<String> = schema
                    .properties(&parent_ty)
                    .into_iter()
                    .filter(|p| p.ty.base == "Int" && !p.ty.is_list())
                    .map(|p| p.name.clone())
                    .collect();
                if int_props.is_empty() {
                    continue;
                }
                let prop = int_props[aux % int_props.len()].clone();
                let tag = "early_count".to_string();
                edge_at_mut(q, &path).count.get_or_insert_with(Default::default).tags.push(tag.clone());
                let op = [crate::values::Op::Eq, crate::values::Op::Ne, crate::values::Op::Lt, crate::values::Op::Ge][aux % 4];
                edge_at_mut(q, parent).body.insert(
                    0,
                    Sel::Prop(PropSel { name: prop, filters: vec![Filter { op, arg: Some(Arg::Tag(tag)) }], ..Default::default() }),
                );
                done = true;
            }
            "tag_operand_undefined" | "filter_op_replaced" | "variable_shared_across_types" | "operand_kind_swapped" => {
                let mut total = 0usize;
                for_each_filter(&mut q.root, &mut |_| total += 1);
                if total == 0 {
                    continue;
                }
                let target = (pick * total) >> 6;
                for_each_filter(&mut q.root, &mut |f| {
                    if count == target {
                        match label {
                            "tag_operand_undefined" => f.arg = Some(Arg::Tag("never_defined".into())),
                            "filter_op_replaced" => f.op = ALL_OPS[(aux * ALL_OPS.len()) >> 6],
                            "variable_shared_across_types" => f.arg = Some(Arg::Var("v1".into())),
                            _ => {
                                f.arg = match f.arg.take() {
                                    Some(Arg::Var(v)) => Some(Arg::Tag(v)),
                                    Some(Arg::Tag(t)) => Some(Arg::Var(t)),
                                    None => Some(Arg::Var("v1".into())),
                                }
                            }
                        }
                        if f.arg.is_none() && !f.op.is_unary() {
                            f.arg = Some(Arg::Var("v1".into()));
                        }
                        done = true;
                    }
                    count += 1;
                });
            }
            "property_renamed_to_unknown" | "output_name_duplicated" | "tag_used_before_definition" | "tag_name_duplicated"
            | "filter_added_to_first_property" | "output_name_invalid" => {
                let mut total = 0usize;
                let mut first_output: Option<String> = None;
                let mut last_tag: Option<String> = None;
                // fold-count tags as well (half of the time they win): a count tag used by a filter on an earlier vertex
                let mut count_tag: Option<String> = None;
                for_each_edge(&mut q.root, &mut |e| {
                    if let Some(t) = e.count.as_ref().and_then(|c| c.tags.last()) {
                        count_tag = Some(t.clone());
                    }
                });
                for_each_prop(&mut q.root, &mut |p| {
                    total += 1;
                    if first_output.is_none() {
                        first_output = p.outputs.iter().flatten().next().cloned();
                    }
                    if let Some(t) = p.tags.iter().flatten().last() {
                        last_tag = Some(t.clone());
                    }
                });
                if total == 0 {
                    continue;
                }
                if aux % 2 == 0 && count_tag.is_some() {
                    last_tag = count_tag.clone();
                }
                let target = if label == "filter_added_to_first_property" { 0 } else { (pick * total) >> 6 };
                for_each_prop(&mut q.root, &mut |p| {
                    if count == target {
                        match label {
                            "property_renamed_to_unknown" => p.name = "no_such_property".into(),
                            "output_name_duplicated" => p.outputs.push(Some(first_output.clone().unwrap_or_else(|| "o1".into()))),
                            "tag_used_before_definition" => p.filters.push(Filter {
                                op: ALL_OPS[(aux * ALL_OPS.len()) >> 6],
                                arg: Some(Arg::Tag(last_tag.clone().unwrap_or_else(|| "t1".into()))),
                            }),
                            "tag_name_duplicated" => p.tags.push(Some(last_tag.clone().unwrap_or_else(|| "t1".into()))),
                            "filter_added_to_first_property" => p.filters.push(Filter {
                                op: ALL_OPS[(aux * ALL_OPS.len()) >> 6],
                                arg: Some(Arg::Tag(last_tag.clone().unwrap_or_else(|| "t1".into()))),
                            }),
                            _ => p.outputs.push(Some(["", "1x", "a b", "\u{e9}", "a-b"][aux % 5].to_string())),
                        }
                        if let Some(f) = p.filters.last_mut() {
                            if f.op.is_unary() {
                                f.arg = None;
                            }
                        }
                        done = true;
                    }
                    count += 1;
                });
            }
            _ => {
                let mut total = 0usize;
                for_each_edge(&mut q.root, &mut |_| total += 1);
                if total == 0 {
                    continue;
                }
                let target = (pick * total) >> 6;
                let type_names: Vec<String> = schema.types.iter().map(|t| t.name.clone()).collect();
                for_each_edge(&mut q.root, &mut |e| {
                    if count == target {
                        match label {
                            "edge_kind_toggled" => match aux % 5 {
                                0 => e.fold = !e.fold,
                                1 => e.optional = !e.optional,
                                2 => e.recurse = if e.recurse.is_some() { None } else { Some(2) },
                                3 => {
                                    e.fold = true;
                                    e.optional = true;
                                }
                                _ => {
                                    e.fold = true;
                                    e.recurse = Some(1);
                                }
                            },
                            "coercion_to_unrelated_type" => e.coerce = Some(type_names[aux % type_names.len()].clone()),
                            "edge_renamed_to_unknown" => e.name = "no_such_edge".into(),
                            _ => e.recurse = Some(0),
                        }
                        done = true;
                    }
                    count += 1;
                });
            }
        }
        if done {
            applied.push(label);
        }
    }
    applied
}

pub fn gen_mutated_valid(c: &mut Choices<'_>) -> (SchemaDoc, String, Vec<&'static str>) {
    let schema = gen_schema(c, &SchemaGenConfig::default());
    let qcfg = QueryGenConfig { fold_bias: c.chance(128), ..QueryGenConfig::default() };
    let mut q = gen_query(c, &schema, &qcfg);
    let applied = mutate_query(c, &schema, &mut q);
    let text = q.render();
    (schema, text, applied)
}

// ---------------------------------------------------------------------------------------------

pub enum HostileCase {
    Generated { schema: SchemaDoc, sdl: String, text: String, features: Vec<&'static str> },
    Spliced { schema_name: String, from: String, text: String },
}

pub fn decode_hostile(c: &mut Choices<'_>) -> HostileCase {
    let source = c.below(100);
    if source < 30 {
        if let Some((schema_name, from, text)) = gen_spliced_document(c) {
            return HostileCase::Spliced { schema_name, from, text };
        }
    }
    if source < 65 {
        let (schema, text, mut features) = gen_mutated_valid(c);
        features.push("source:valid_query_with_point_mutations");
        let sdl = schema.render();
        return HostileCase::Generated { schema, sdl, text, features };
    }
    let schema = gen_schema(c, &SchemaGenConfig::default());
    let (text, features) = gen_loose_document(c, &schema);
    let sdl = schema.render();
    HostileCase::Generated { schema, sdl, text, features }
}

fn error_kind(e: &str) -> String {
    // e.g. `ParseError(InvalidGraphQL(` -> "ParseError/InvalidGraphQL"
    let parts: Vec<&str> = e.split(['(', ' ', '{', '[']).filter(|s| !s.is_empty()).take(2).collect();
    parts.join("/")
}

fn compile_hostile(case: &HostileCase) -> Result<(CompileOutcome, String), Verdict> {
    match case {
        HostileCase::Generated { sdl, text, .. } => match engine::parse_schema(sdl) {
            Ok(Ok(s)) => Ok((engine::compile(&s, text), text.clone())),
            Ok(Err(e)) => Err(Verdict::HarnessBug(format!("generated schema rejected: {e}\n{sdl}"))),
            Err(p) => Err(Verdict::HarnessBug(format!("generated schema panicked: {}\n{sdl}", p.render()))),
        },
        HostileCase::Spliced { schema_name, text, .. } => {
            let corpus = repo_corpus();
            let (_, s) = &corpus.schemas[schema_name];
            Ok((engine::compile(s, text), text.clone()))
        }
    }
}

pub fn c10_case(bytes: &[u8], stats: &mut Stats, counting: bool) -> Verdict {
    let mut c = Choices::new(bytes);
    let case = decode_hostile(&mut c);
    let (outcome, text) = match compile_hostile(&case) {
        Ok(x) => x,
        Err(v) => return v,
    };
    let kind = match &outcome {
        CompileOutcome::Ok(_) => "Ok".to_string(),
        CompileOutcome::Err(e) => error_kind(e),
        CompileOutcome::Panic(_) => "PANIC".to_string(),
    };
    if counting {
        stats.label(&format!("outcome:{kind}"));
        match &case {
            HostileCase::Generated { features, .. } => {
                if !features.contains(&"source:valid_query_with_point_mutations") {
                    stats.label("source:loose_generator");
                }
                for f in features {
                    stats.label(f);
                }
            }
            HostileCase::Spliced { .. } => stats.label("source:token_mutation_of_repo_query"),
        }
        let parser_accepted = !kind.starts_with("ParseError/InvalidGraphQL");
        if parser_accepted && stats.nontrivial(text.as_bytes()) {
            stats.sample(|| json!({"query": text, "outcome": kind}));
        }
    }
    match outcome {
        CompileOutcome::Panic(p) => Verdict::Fail {
            sig: format!("frontend-panic|{}|{}", p.file(), first_line(&p.message)),
            msg: format!("frontend panicked: {}\nquery text:\n{text}", p.render()),
        },
        _ => Verdict::Pass,
    }
}

pub fn render_hostile(bytes: &[u8]) -> serde_json::Value {
    let mut c = Choices::new(bytes);
    match decode_hostile(&mut c) {
        HostileCase::Generated { sdl, text, features, .. } => json!({"schema": sdl, "query": text, "features": features}),
        HostileCase::Spliced { schema_name, from, text } => {
            json!({"repo_schema": schema_name, "mutated_from": from, "query": text})
        }
    }
}

/// C11 sub-search: every mutated query that the frontend *accepts* must satisfy the IR invariants.
pub fn c11_hostile_case(bytes: &[u8], stats: &mut Stats, counting: bool) -> Verdict {
    let mut c = Choices::new(bytes);
    let case = decode_hostile(&mut c);
    let (outcome, text) = match compile_hostile(&case) {
        Ok(x) => x,
        Err(v) => return v,
    };
    match outcome {
        CompileOutcome::Ok(iq) => {
            if counting {
                stats.label("mutated_query_accepted");
                if (iq.vids.len() >= 2 && iq.ir_query.root_component.folds.len() + 1 >= 2) && stats.nontrivial(text.as_bytes()) {
                    stats.sample(|| json!({"query": text}));
                }
            }
            match ir_invariant_violation(&iq) {
                None => Verdict::Pass,
                Some((k, m)) => Verdict::Fail { sig: format!("c11:{k}"), msg: format!("{m}\nquery text:\n{text}") },
            }
        }
        CompileOutcome::Err(_) => Verdict::Discard("frontend-rejected".into()),
        CompileOutcome::Panic(_) => Verdict::Discard("frontend-panic(C10)".into()),
    }
}

pub fn c10(ctx: &CheckCtx) -> i32 {
    if ctx.replay.is_some() {
        return replay_with(ctx, &|sub, bytes| {
            if sub == "c10-bytes" {
                c10_bytes_case(bytes, &mut Stats::default(), false)
            } else {
                c10_case(bytes, &mut Stats::default(), false)
            }
        });
    }
    let mut report = Report::new(
        ctx,
        "choice stream -> query text from (i) a loose grammar-level generator over a generated valid schema (directives in \
         legal and illegal positions, duplicated / missing / ill-typed directive arguments, unknown fields, types, tags and \
         operators, fragments, inline fragments with and without types, on properties and with siblings, 0-4 operations, \
         mutation/subscription, variable definitions, every literal kind as edge argument, @recurse depths 0/-1/1.5/\"x\"/huge, \
         @transform chains) and (ii) token-level mutation and splicing of the repository's own test queries over the \
         repository's six schemas, (iii) valid generated queries (folds, tags, count filters, recursion) with one to three AST-level \
         point mutations (undefined tag operand, replaced operator, unknown property / edge, variable shared across types, toggled \
         @fold/@optional/@recurse, duplicated output / tag name, tag used before its definition, unrelated coercion, ...), so that \
         error paths run in the middle of complex valid context, and (iv) raw byte strings over an alphabet with multi-byte characters; oracle: frontend::parse returns Ok or Err and never \
         unwinds. Non-trivial: text the GraphQL parser accepts (so the frontend proper ran); distinct by text hash.",
    );
    report.assume("query nesting depth is bounded (<= 6 levels) so the third-party parser's native recursion cannot overflow the stack");
    let cases = ctx.cases(800_000, 8_000_000);
    let res = search(ctx, "c10", cases, 32, 600, c10_case);
    report.absorb(res, &render_hostile);
    let cases = ctx.cases(300_000, 3_000_000);
    let res = search(ctx, "c10-bytes", cases, 0, 200, c10_bytes_case);
    report.absorb(res, &|b| json!({"text": bytes_to_text(b)}));
    report.finish()
}

fn bytes_to_text(b: &[u8]) -> String {
    // map bytes onto a small alphabet that is dense in GraphQL punctuation
    const ALPHA: &str = "{}()[]:,@$%\"! \n.abefilnoprtuvx_0123456789-\u{e9}\u{65e5}\u{1f980}\\";
    let alpha: Vec<char> = ALPHA.chars().collect();
    b.iter().map(|x| alpha[(*x as usize * alpha.len()) >> 8]).collect()
}

pub fn c10_bytes_case(bytes: &[u8], stats: &mut Stats, counting: bool) -> Verdict {
    let corpus = repo_corpus();
    let text = bytes_to_text(bytes);
    let Some((_, schema)) = corpus.schemas.get("numbers") else {
        return Verdict::Discard("no-numbers-schema".into());
    };
    let outcome = engine::compile(schema, &text);
    if counting {
        stats.label("source:raw_bytes");
    }
    match outcome {
        CompileOutcome::Panic(p) => Verdict::Fail {
            sig: format!("frontend-panic|{}|{}", p.file(), first_line(&p.message)),
            msg: format!("frontend panicked: {}\nquery text:\n{text}", p.render()),
        },
        _ => Verdict::Pass,
    }
}
