//! World-based checks: C01 (reference semantics) and the checks that ride on the same engine runs.

use std::sync::Arc;

use serde_json::json;

use crate::adapter::GraphAdapter;
use crate::checks::{replay_with, Report};
use crate::choice::Choices;
use crate::engine::{self, ExecOutcome};
use crate::reference::{canon_rows_sorted, RefEval, Row};
use crate::runner::{search, CheckCtx, Stats, Verdict};
use crate::worldcase::{compile_case, decode_world_case, first_line, GenConfig, WorldCase};

pub const WORLD_MIN_LEN: usize = 48;
pub const WORLD_MAX_LEN: usize = 700;
pub const ROW_LIMIT: usize = 5000;

pub fn default_gen_config() -> GenConfig {
    GenConfig::default()
}

fn label_case(stats: &mut Stats, case: &WorldCase) {
    for l in case.features.labels() {
        stats.label(l);
    }
}

fn diff_rows(engine_rows: &[Row], ref_rows: &[Row]) -> Option<String> {
    let a = canon_rows_sorted(engine_rows);
    let b = canon_rows_sorted(ref_rows);
    if a == b {
        return None;
    }
    let only_engine: Vec<&String> = a.iter().filter(|x| !b.contains(x)).take(3).collect();
    let only_ref: Vec<&String> = b.iter().filter(|x| !a.contains(x)).take(3).collect();
    Some(format!(
        "engine rows: {} reference rows: {}\n  only in engine (first 3): {:?}\n  only in reference (first 3): {:?}",
        a.len(),
        b.len(),
        only_engine,
        only_ref
    ))
}

pub fn c01_case(bytes: &[u8], stats: &mut Stats, counting: bool, cfg: &GenConfig) -> Verdict {
    let mut c = Choices::new(bytes);
    let case = decode_world_case(&mut c, cfg);
    let compiled = match compile_case(&case) {
        Ok(x) => x,
        Err(Verdict::Fail { .. }) => return Verdict::Discard("frontend-panic(C10)".into()),
        Err(v) => return v,
    };
    let mut re = RefEval::new(&case.world, &case.ann, &case.args);
    let ref_rows = match re.eval() {
        Ok(r) => r,
        Err(_) => return Verdict::Discard("reference-overflow".into()),
    };
    if ref_rows.len() > ROW_LIMIT {
        return Verdict::Discard("too-many-rows".into());
    }
    let adapter = Arc::new(GraphAdapter::new(case.world.clone()));
    let out = engine::execute(adapter, compiled.iq.clone(), engine::args_to_engine(&case.args), ROW_LIMIT * 2);
    let engine_rows: Vec<Row> = match out {
        ExecOutcome::Budget => return Verdict::Discard("too-much-work".into()),
        ExecOutcome::Rows(r) => r.iter().map(engine::row_from_engine).collect(),
        ExecOutcome::ArgError(e) => {
            return Verdict::Discard(format!("args-rejected(C12):{}", first_line(&e).chars().take(40).collect::<String>()));
        }
        ExecOutcome::Panic(p, _) => {
            if p.in_harness() {
                return Verdict::Fail {
                    sig: format!("adapter-called-outside-contract|{}", first_line(&p.message)),
                    msg: format!("the engine called the adapter outside its contract: {}\n{}", p.render(), case.query_text),
                };
            }
            return Verdict::Discard("engine-panic(C09)".into());
        }
    };
    if counting {
        label_case(stats, &case);
        if re.multi_walk {
            stats.label("recursion_result_depends_on_per_walk_reading");
        }
        if re.missing_optional_seen {
            stats.label("missing_optional_scope_reached");
        }
        let seq_equal = engine_rows.len() == ref_rows.len()
            && engine_rows.iter().zip(ref_rows.iter()).all(|(a, b)| crate::reference::canon_row(a) == crate::reference::canon_row(b));
        if seq_equal {
            stats.bump("row_sequence_also_equal", 1);
        }
        if !ref_rows.is_empty() && case.features.kinds() >= 2 {
            if stats.nontrivial(&case.key()) {
                stats.sample(|| case.short_json());
            }
        }
        if ref_rows.is_empty() {
            stats.label("zero_rows");
        }
    }
    match diff_rows(&engine_rows, &ref_rows) {
        None => Verdict::Pass,
        Some(d) => Verdict::Fail {
            sig: format!("c01:rows-differ|{}", case.features.labels().join(",")),
            msg: format!("{d}\nquery:\n{}\nargs: {:?}", case.query_text, case.args),
        },
    }
}

/// C09: executing an accepted query never panics (stress arguments, early drops).
pub fn c09_case(bytes: &[u8], stats: &mut Stats, counting: bool, cfg: &GenConfig) -> Verdict {
    let mut c = Choices::new(bytes);
    let case = decode_world_case(&mut c, cfg);
    let drop_after = c.below(6); // 0 = run to exhaustion, otherwise drop after that many rows
    let compiled = match compile_case(&case) {
        Ok(x) => x,
        Err(Verdict::Fail { .. }) => return Verdict::Discard("frontend-panic(C10)".into()),
        Err(v) => return v,
    };
    let adapter = Arc::new(GraphAdapter::new(case.world.clone()));
    let limit = if drop_after == 0 { ROW_LIMIT * 2 } else { drop_after };
    let out = engine::execute(adapter, compiled.iq.clone(), engine::args_to_engine(&case.args), limit);
    if counting {
        label_case(stats, &case);
        if drop_after != 0 {
            stats.label("dropped_early");
        }
    }
    match out {
        ExecOutcome::Budget => return Verdict::Discard("too-much-work".into()),
        ExecOutcome::Rows(rows) => {
            if counting {
                let stress = case.features.tag_filters > 0
                    || case.features.count_filter > 0
                    || case.features.fold_import > 0
                    || (case.features.optional > 0 && (case.features.fold > 0 || case.features.recurse > 0));
                if stress {
                    if stats.nontrivial(&case.key()) {
                        stats.sample(|| case.short_json());
                    }
                }
                if rows.is_empty() {
                    stats.label("zero_rows");
                }
            }
            Verdict::Pass
        }
        ExecOutcome::ArgError(e) => Verdict::Discard(format!("args-rejected(C12):{}", first_line(&e).chars().take(40).collect::<String>())),
        ExecOutcome::Panic(p, _) => {
            if p.in_harness() {
                Verdict::Fail {
                    sig: format!("adapter-called-outside-contract|{}", first_line(&p.message)),
                    msg: format!("the engine called the adapter outside its contract: {}\n{}", p.render(), case.query_text),
                }
            } else {
                Verdict::Fail {
                    sig: format!("exec-panic|{}|{}|ctx:{}", p.file(), first_line(&p.message), stress_context(&case).join(",")),
                    msg: format!("execution panicked: {}\nquery:\n{}\nargs: {:?}", p.render(), case.query_text, case.args),
                }
            }
        }
    }
}

/// C09, loose mode: operators and tag operands are chosen without regard to types, so most queries are rejected by the
/// frontend; whatever it accepts is executed with arguments generated from the variable types the *engine* recorded.
/// This is where a weakened operand type check (ill-typed operands reaching `filtering.rs`) becomes visible.
pub fn c09_loose_case(bytes: &[u8], stats: &mut Stats, counting: bool, cfg: &GenConfig) -> Verdict {
    let mut c = Choices::new(bytes);
    // the harness's annotator is written for well-typed queries: if it cannot digest a loose one the case is dropped
    let decoded = engine::catch(|| {
        let case = decode_world_case(&mut c, cfg);
        let drop_after = c.below(6);
        let arg_seed: Vec<u8> = (0..48).map(|_| c.byte()).collect();
        (case, drop_after, arg_seed)
    });
    let Ok((case, drop_after, arg_seed)) = decoded else {
        return Verdict::Discard("loose-query-not-digestible-by-the-harness-annotator".into());
    };
    let schema = match engine::parse_schema(&case.sdl) {
        Ok(Ok(s)) => s,
        _ => return Verdict::HarnessBug(format!("generated schema rejected\n{}", case.sdl)),
    };
    let iq = match engine::compile(&schema, &case.query_text) {
        engine::CompileOutcome::Ok(iq) => iq,
        engine::CompileOutcome::Err(e) => {
            if counting {
                stats.label("loose:frontend-rejected");
            }
            let kind = e.split(['(', ' ', '{']).next().unwrap_or("?").to_string();
            return Verdict::Discard(format!("frontend-rejected:{kind}"));
        }
        engine::CompileOutcome::Panic(_) => return Verdict::Discard("frontend-panic(C10)".into()),
    };
    // arguments from the engine's own recorded variable types
    let mut ac = Choices::new(&arg_seed);
    let mut args: std::collections::BTreeMap<String, crate::values::Value> = Default::default();
    for (name, ty) in iq.ir_query.variables.iter() {
        let Some(t) = crate::values::Ty::parse(&ty.to_string()) else {
            return Verdict::HarnessBug(format!("cannot parse engine type {ty}"));
        };
        let is_regex = case.ann.var_uses.iter().any(|(n, _, op, _)| n == name.as_ref() && matches!(op, crate::values::Op::Regex | crate::values::Op::NotRegex));
        let v = if is_regex && t.base == "String" && !t.is_list() {
            crate::values::Value::str(["a", "^a", "b$", "a.c", "."][ac.below(5)])
        } else {
            // (never the invalid pattern of the data pool: which variables end up as regex patterns is the engine's
            // business in this mode, and invalid regex arguments are a listed finding probed elsewhere)
            match crate::data::gen_value_of_type(&mut ac, &t, 0) {
                crate::values::Value::Str(s) if s == "(" => crate::values::Value::str("a"),
                other => other,
            }
        };
        args.insert(name.to_string(), v);
    }
    // sometimes one argument is replaced by a value of another kind or nesting: argument validation decides, and
    // whatever it accepts must execute without panicking
    let mut edited = false;
    if !args.is_empty() && ac.chance(90) {
        let names: Vec<String> = args.keys().cloned().collect();
        let name = names[ac.below(names.len())].clone();
        let pools: [crate::values::Value; 10] = [
            crate::values::Value::int(2),
            crate::values::Value::uint(u64::MAX as i128),
            crate::values::Value::Float(0.5),
            crate::values::Value::str("a"),
            crate::values::Value::Bool(true),
            crate::values::Value::Null,
            crate::values::Value::List(vec![]),
            crate::values::Value::List(vec![crate::values::Value::int(1), crate::values::Value::Null]),
            crate::values::Value::List(vec![crate::values::Value::List(vec![])]),
            crate::values::Value::List(vec![crate::values::Value::str("a"), crate::values::Value::int(1)]),
        ];
        args.insert(name, pools[ac.below(pools.len())].clone());
        edited = true;
    }
    let ill_typed = !case.ann.errors.is_empty();
    let adapter = Arc::new(GraphAdapter::new(case.world.clone()));
    let limit = if drop_after == 0 { ROW_LIMIT * 2 } else { drop_after };
    let out = engine::execute(adapter, iq.clone(), engine::args_to_engine(&args), limit);
    if counting {
        stats.label("loose:frontend-accepted");
        if edited && matches!(out, ExecOutcome::Rows(_)) {
            stats.label("loose:edited-argument-accepted-by-validation");
        }
        if ill_typed {
            stats.label("loose:accepted-although-the-harness-annotator-objects");
        }
        if stats.nontrivial(case.query_text.as_bytes()) {
            stats.sample(|| json!({"query": case.query_text, "args": format!("{args:?}"), "annotator_objections": case.ann.errors}));
        }
    }
    match out {
        ExecOutcome::Budget => return Verdict::Discard("too-much-work".into()),
        ExecOutcome::Rows(_) => Verdict::Pass,
        ExecOutcome::ArgError(_) => Verdict::Discard("args-rejected(C12)".into()),
        ExecOutcome::Panic(p, _) => {
            if p.in_harness() {
                return Verdict::Discard("adapter-misuse(C21)".into());
            }
            Verdict::Fail {
                sig: format!("exec-panic|{}|{}|ctx:{}", p.file(), first_line(&p.message), stress_context(&case).join(",")),
                msg: format!("execution panicked: {}\nquery:\n{}\nargs: {:?}", p.render(), case.query_text, args),
            }
        }
    }
}

/// which listed-finding preconditions does this case satisfy (part of the failure signature)
pub fn stress_context(case: &WorldCase) -> Vec<&'static str> {
    let mut v = vec![];
    let mut list_ordering = false;
    case.ann.root.walk(&mut |n| {
        for p in &n.props {
            if let Some(pt) = crate::query_ast::prop_type(&case.world.schema, &n.ty, &p.name) {
                if pt.is_list() && p.filters.iter().any(|f| f.op.is_ordering()) {
                    list_ordering = true;
                }
            }
        }
    });
    if list_ordering {
        v.push("list_ordering_filter");
    }
    let invalid_regex = case.ann.var_uses.iter().any(|(name, _, op, _)| {
        matches!(op, crate::values::Op::Regex | crate::values::Op::NotRegex)
            && matches!(case.args.get(name), Some(crate::values::Value::Str(s)) if crate::query_ast::INVALID_REGEX_POOL.contains(&s.as_str()))
    });
    if invalid_regex {
        v.push("invalid_regex_argument");
    }
    v
}

pub fn c09(ctx: &CheckCtx) -> i32 {
    let cfg = default_gen_config();
    let mut stress_cfg = default_gen_config();
    stress_cfg.args.allow_invalid_regex = true;
    stress_cfg.query.allow_list_ordering = true;
    let mut loose_cfg = default_gen_config();
    loose_cfg.query.loose_types = true;
    loose_cfg.query.allow_list_ordering = true;
    if ctx.replay.is_some() {
        return replay_with(ctx, &|sub, bytes| {
            if sub == "c09-loose" {
                return c09_loose_case(bytes, &mut Stats::default(), false, &loose_cfg);
            }
            let cfg = if sub == "c09-listed" { &stress_cfg } else { &cfg };
            c09_case(bytes, &mut Stats::default(), false, cfg)
        });
    }
    let mut report = Report::new(
        ctx,
        "choice stream -> world with stress arguments (invalid regexes, extreme ints, list operands of ordering \
         filters, repeated tag uses, count filters below optionals), executed to exhaustion or dropped after 1-5 rows \
         on a contract-abiding adapter; oracle: no panic. Non-trivial: accepted query that executed and has a tag \
         filter, count filter, tag imported into a fold, or fold/recursion together with @optional; distinct by case hash. \
         A third search (c09-loose) picks operators and tag operands without regard to types, lets the frontend decide, and \
         executes whatever it accepts with arguments drawn from the variable types the engine itself recorded (non-trivial \
         there: distinct accepted query texts).",
    );
    report.assume("the main search excludes by construction the two listed findings (ordering filters on list-typed properties, invalid regex arguments); a second, smaller search includes them and tolerates exactly their signatures");
    let cases = ctx.cases(250_000, 4_000_000);
    let res = search(ctx, "c09", cases, WORLD_MIN_LEN, WORLD_MAX_LEN, |b, s, counting| c09_case(b, s, counting, &cfg));
    report.absorb(res, &|b| render_world_case(b, &cfg));
    let cases = ctx.cases(30_000, 600_000);
    let res = search(ctx, "c09-listed", cases, WORLD_MIN_LEN, WORLD_MAX_LEN, |b, s, counting| {
        let mut scratch = Stats::default();
        let v = c09_case(b, &mut scratch, counting, &stress_cfg);
        if counting {
            s.bump("cases_in_search_including_listed_findings", 1);
        }
        v
    });
    report.absorb(res, &|b| render_world_case(b, &stress_cfg));
    // loose mode: the quantifier is "every query the frontend accepts", not "every query the harness considers well-typed"
    let cases = ctx.cases(400_000, 6_000_000);
    let res = search(ctx, "c09-loose", cases, WORLD_MIN_LEN, WORLD_MAX_LEN, |b, s, counting| c09_loose_case(b, s, counting, &loose_cfg));
    report.absorb(res, &|b| {
        engine::catch(|| render_world_case(b, &loose_cfg)).unwrap_or_else(|_| json!({"note": "loose query not renderable by the annotator"}))
    });
    report.finish()
}

pub fn render_world_case(bytes: &[u8], cfg: &GenConfig) -> serde_json::Value {
    let mut c = Choices::new(bytes);
    let case = decode_world_case(&mut c, cfg);
    case.to_json()
}

pub fn c01(ctx: &CheckCtx) -> i32 {
    let cfg = default_gen_config();
    let mut fold_cfg = default_gen_config();
    fold_cfg.query.fold_bias = true;
    fold_cfg.query.quiet_folds = true;
    if ctx.replay.is_some() {
        return replay_with(ctx, &|sub, bytes| c01_case(bytes, &mut Stats::default(), false, if sub == "c01-folds" { &fold_cfg } else { &cfg }));
    }
    let mut report = Report::new(
        ctx,
        "choice stream -> (valid schema, conforming dataset, valid query, fitting arguments); engine rows vs \
         eager reference interpreter as multisets. Non-trivial: reference yields >= 1 row and the query combines \
         >= 2 of {filter, tag filter, optional, fold, count filter/output/tag, recurse, coercion, parameterised edge}; \
         distinct by hash of (schema, data, query, args).",
    );
    report.assume("recursion yields one row per walk of length 0..d (the repo's own snapshots document paths)");
    report.assume("@optional together with @recurse on one edge behaves as @recurse");
    report.assume("a property selected without any directive is legal and ignored");
    report.assume("data values are Int/Float/String/Boolean and lists of them (no ID, no enums)");
    let cases = ctx.cases(250_000, 5_000_000);
    let res = search(ctx, "c01", cases, WORLD_MIN_LEN, WORLD_MAX_LEN, |b, s, counting| c01_case(b, s, counting, &cfg));
    report.absorb(res, &|b| render_world_case(b, &cfg));
    // second search: fold-biased worlds in which some folds are observed by nothing (the shape that is eligible for the
    // engine's early termination), one to three filters on a fold's count
    let cases = ctx.cases(150_000, 3_000_000);
    let res = search(ctx, "c01-folds", cases, WORLD_MIN_LEN, WORLD_MAX_LEN, |b, s, counting| c01_case(b, s, counting, &fold_cfg));
    report.absorb(res, &|b| render_world_case(b, &fold_cfg));
    report.extra.insert("generator_bounds".into(), json!({"max_query_vertices": cfg.query.max_vertices, "max_data_vertices": cfg.data.max_vertices}));
    report.finish()
}
