//! C19: schema validation never panics and accepts exactly the valid schemas.

use serde_json::json;

use crate::checks::{replay_with, Report};
use crate::choice::Choices;
use crate::engine;
use crate::runner::{search, CheckCtx, Stats, Verdict};
use crate::schema_ast::{gen_schema, validate_schema, FieldDef, ParamDef, SchemaDoc, SchemaGenConfig, TypeDef};
use crate::values::{Ty, Value};
use crate::worldcase::first_line;

/// A mutation label and whether it must make the schema invalid.
#[derive(Clone, Debug, PartialEq, Eq)]
pub struct Applied {
    pub label: &'static str,
    pub violating: bool,
}

/// labels whose only known engine behaviour is a panic (listed findings); excluded from the main search
pub const PANIC_FAMILY: [&str; 7] = [
    "dup_schema_block",
    "no_schema_block",
    "dup_directive",
    "dup_scalar",
    "root_undefined",
    "root_interface",
    "builtin_redefined",
];

const ALL_MUTATIONS: [&str; 46] = [
    // violating
    "dup_type",
    "dup_field",
    "dup_schema_block",
    "no_schema_block",
    "dup_directive",
    "dup_scalar",
    "root_undefined",
    "root_interface",
    "reserved_type_name",
    "root_with_property",
    "implements_unknown",
    "implements_object",
    "implements_self",
    "implements_cycle",
    "missing_transitive",
    "missing_inherited_field",
    "widened_nullability",
    "widened_base",
    "widened_list_shape",
    "param_added",
    "param_removed",
    "param_narrowed",
    "unknown_field_type",
    "custom_scalar_field",
    "reserved_field_name",
    "edge_into_root",
    "property_with_params",
    "default_wrong_type",
    "default_null_for_nonnull",
    "default_enum",
    "default_object",
    "default_list_with_bad_element",
    "default_valid_list",
    "edge_list_of_list",
    "ambiguous_origin",
    "builtin_redefined",
    // benign
    "benign_docs",
    "benign_reorder_types",
    "benign_unused_scalar",
    "benign_unused_directive",
    "benign_no_directive_definitions",
    "benign_id_property",
    "benign_depth_30_property",
    "benign_legal_narrowing",
    "benign_legal_param_widening",
    "benign_reorder_fields",
];

fn vertex_indices(s: &SchemaDoc) -> Vec<usize> {
    (0..s.types.len()).filter(|i| s.types[*i].name != s.root).collect()
}

fn pick_inherited(c: &mut Choices<'_>, s: &SchemaDoc, edges: Option<bool>) -> Option<(usize, usize, String)> {
    // (type index, field index, parent interface name) for a field that some implemented interface also defines
    let mut cands = vec![];
    for (ti, t) in s.types.iter().enumerate() {
        for (fi, f) in t.fields.iter().enumerate() {
            for i in &t.implements {
                if s.field(i, &f.name).is_some() {
                    let is_edge = s.is_edge(f);
                    if edges.map(|e| e == is_edge).unwrap_or(true) {
                        cands.push((ti, fi, i.clone()));
                    }
                }
            }
        }
    }
    if cands.is_empty() { None } else { Some(cands[c.below(cands.len())].clone()) }
}

/// Applies one mutation; returns None when it is not applicable to this schema.
/// Puts the parameter under test among zero to two well-formed neighbours (a default-less nullable one, one with a
/// fitting default), before and/or after it: whether a parameter's default is checked must not depend on its position
/// or on what the other parameters of the edge declare.
fn with_neighbour_params(c: &mut Choices<'_>, p: ParamDef) -> Vec<ParamDef> {
    let plain = |name: &str| ParamDef { name: name.into(), ty: Ty::named("Int", true), default: None };
    let defaulted = |name: &str| ParamDef { name: name.into(), ty: Ty::named("String", true), default: Some(Value::str("x")) };
    match c.below(6) {
        0 => vec![p],
        1 => vec![plain("before"), p],
        2 => vec![defaulted("pre"), p],
        3 => vec![p, plain("after")],
        4 => vec![plain("before"), p, defaulted("post")],
        _ => vec![defaulted("pre"), plain("before"), p],
    }
}

fn apply(c: &mut Choices<'_>, s: &mut SchemaDoc, label: &'static str) -> Option<Applied> {
    let vi = vertex_indices(s);
    let pick_v = |c: &mut Choices<'_>| vi[c.below(vi.len())];
    let violating = !label.starts_with("benign_") && label != "default_valid_list";
    match label {
        "dup_type" => {
            let t = s.types[pick_v(c)].clone();
            s.types.push(t);
        }
        "dup_field" => {
            let ti = c.below(s.types.len());
            let f = s.types[ti].fields[c.below(s.types[ti].fields.len())].clone();
            s.types[ti].fields.push(f);
        }
        "dup_schema_block" => {
            let r = s.schema_blocks.first()?.clone();
            s.schema_blocks.push(r);
        }
        "no_schema_block" => s.schema_blocks.clear(),
        "dup_directive" => {
            if s.include_directives && c.chance(128) {
                s.extra_directives.push("filter".into());
            } else {
                s.extra_directives.push("custom".into());
                s.extra_directives.push("custom".into());
            }
        }
        "dup_scalar" => {
            s.scalars.push("Date".into());
            s.scalars.push("Date".into());
        }
        "root_undefined" => s.schema_blocks = vec!["Nowhere".into()],
        "root_interface" => {
            let ifaces: Vec<String> = s.types.iter().filter(|t| t.is_interface).map(|t| t.name.clone()).collect();
            if ifaces.is_empty() {
                return None;
            }
            s.schema_blocks = vec![ifaces[c.below(ifaces.len())].clone()];
        }
        "reserved_type_name" => {
            let fields = vec![FieldDef { name: "x".into(), ty: Ty::named("Int", true), params: vec![], doc: None }];
            s.types.push(TypeDef { name: "__Hidden".into(), is_interface: c.chance(128), implements: vec![], fields, doc: None });
        }
        "root_with_property" => {
            let ri = s.types.iter().position(|t| t.name == s.root)?;
            s.types[ri].fields.push(FieldDef { name: "version".into(), ty: Ty::named("String", c.chance(128)), params: vec![], doc: None });
        }
        "implements_unknown" => {
            let ti = pick_v(c);
            s.types[ti].implements.push("Nonexistent".into());
        }
        "implements_object" => {
            let objs: Vec<String> = s.concrete_types().iter().map(|t| t.name.clone()).collect();
            let ti = pick_v(c);
            let target = objs.iter().find(|o| **o != s.types[ti].name)?.clone();
            // copy the target's fields so that only the "implements a non-interface" rule is at stake
            let extra: Vec<FieldDef> = s.type_def(&target)?.fields.clone();
            for f in extra {
                if !s.types[ti].fields.iter().any(|x| x.name == f.name) {
                    s.types[ti].fields.push(f);
                }
            }
            s.types[ti].implements.push(target);
        }
        "implements_self" => {
            let ifaces: Vec<usize> = (0..s.types.len()).filter(|i| s.types[*i].is_interface).collect();
            if ifaces.is_empty() {
                return None;
            }
            let ti = ifaces[c.below(ifaces.len())];
            let n = s.types[ti].name.clone();
            s.types[ti].implements.push(n);
        }
        "implements_cycle" => {
            // two fresh interfaces implementing each other (same fields, so only the cycle is wrong)
            let f = vec![FieldDef { name: "cyc".into(), ty: Ty::named("Int", true), params: vec![], doc: None }];
            s.types.push(TypeDef { name: "CycA".into(), is_interface: true, implements: vec!["CycB".into()], fields: f.clone(), doc: None });
            s.types.push(TypeDef { name: "CycB".into(), is_interface: true, implements: vec!["CycA".into()], fields: f, doc: None });
        }
        "missing_transitive" => {
            // T implements I whose own implements list is non-empty: drop one transitive entry
            let mut cands = vec![];
            for (ti, t) in s.types.iter().enumerate() {
                for i in &t.implements {
                    if let Some(idef) = s.type_def(i) {
                        for ii in &idef.implements {
                            if t.implements.contains(ii) {
                                cands.push((ti, ii.clone()));
                            }
                        }
                    }
                }
            }
            if cands.is_empty() {
                return None;
            }
            let (ti, drop) = cands[c.below(cands.len())].clone();
            s.types[ti].implements.retain(|x| x != &drop);
        }
        "missing_inherited_field" => {
            let (ti, fi, _) = pick_inherited(c, s, None)?;
            s.types[ti].fields.remove(fi);
            if s.types[ti].fields.is_empty() {
                s.types[ti].fields.push(FieldDef { name: "filler".into(), ty: Ty::named("Int", true), params: vec![], doc: None });
            }
        }
        "widened_nullability" => {
            // parent non-null at some layer, child nullable there
            let mut cands = vec![];
            for (ti, t) in s.types.iter().enumerate() {
                for (fi, f) in t.fields.iter().enumerate() {
                    for i in &t.implements {
                        if let Some(pf) = s.field(i, &f.name) {
                            for (li, pn) in pf.ty.nulls.iter().enumerate() {
                                if !*pn && pf.ty.nulls.len() == f.ty.nulls.len() {
                                    cands.push((ti, fi, li));
                                }
                            }
                        }
                    }
                }
            }
            if cands.is_empty() {
                return None;
            }
            let (ti, fi, li) = cands[c.below(cands.len())];
            s.types[ti].fields[fi].ty.nulls[li] = true;
        }
        "widened_base" => {
            let (ti, fi, parent) = pick_inherited(c, s, Some(true))?;
            let pbase = s.field(&parent, &s.types[ti].fields[fi].name)?.ty.base.clone();
            // a vertex type that is not a subtype of the parent's target
            let bad: Vec<String> = s
                .types
                .iter()
                .filter(|t| t.name != s.root && !s.is_subtype(&pbase, &t.name))
                .map(|t| t.name.clone())
                .collect();
            if bad.is_empty() {
                return None;
            }
            s.types[ti].fields[fi].ty.base = bad[c.below(bad.len())].clone();
        }
        "widened_list_shape" => {
            let (ti, fi, _) = pick_inherited(c, s, Some(false))?;
            let t = s.types[ti].fields[fi].ty.clone();
            s.types[ti].fields[fi].ty = if t.is_list() { t.elem().unwrap() } else { Ty::list_of(&t, true) };
        }
        "param_added" => {
            let (ti, fi, _) = pick_inherited(c, s, Some(true))?;
            s.types[ti].fields[fi].params.push(ParamDef { name: "added".into(), ty: Ty::named("Int", true), default: None });
        }
        "param_removed" => {
            let mut cands = vec![];
            for (ti, t) in s.types.iter().enumerate() {
                for (fi, f) in t.fields.iter().enumerate() {
                    if !f.params.is_empty() && t.implements.iter().any(|i| s.field(i, &f.name).is_some()) {
                        cands.push((ti, fi));
                    }
                }
            }
            if cands.is_empty() {
                return None;
            }
            let (ti, fi) = cands[c.below(cands.len())];
            s.types[ti].fields[fi].params.remove(0);
        }
        "param_narrowed" => {
            let mut cands = vec![];
            for (ti, t) in s.types.iter().enumerate() {
                for (fi, f) in t.fields.iter().enumerate() {
                    for i in &t.implements {
                        if let Some(pf) = s.field(i, &f.name) {
                            for (pi, p) in f.params.iter().enumerate() {
                                if let Some(pp) = pf.params.iter().find(|x| x.name == p.name) {
                                    if pp.ty.nulls[0] {
                                        cands.push((ti, fi, pi));
                                    }
                                }
                            }
                        }
                    }
                }
            }
            if cands.is_empty() {
                return None;
            }
            let (ti, fi, pi) = cands[c.below(cands.len())];
            let p = &mut s.types[ti].fields[fi].params[pi];
            p.ty.nulls[0] = false;
            if matches!(p.default, Some(Value::Null)) {
                p.default = None;
            }
        }
        "unknown_field_type" => {
            let ti = pick_v(c);
            s.types[ti].fields.push(FieldDef { name: "mystery".into(), ty: Ty::named("Nonexistent", true), params: vec![], doc: None });
        }
        "custom_scalar_field" => {
            let ti = pick_v(c);
            if !s.scalars.contains(&"Date".to_string()) {
                s.scalars.push("Date".into());
            }
            s.types[ti].fields.push(FieldDef { name: "created".into(), ty: Ty::named("Date", true), params: vec![], doc: None });
        }
        "reserved_field_name" => {
            let ti = pick_v(c);
            s.types[ti].fields.push(FieldDef { name: "__secret".into(), ty: Ty::named("Int", true), params: vec![], doc: None });
        }
        "edge_into_root" => {
            let ti = pick_v(c);
            let root = s.root.clone();
            s.types[ti].fields.push(FieldDef { name: "back".into(), ty: Ty { base: root, nulls: vec![true, false] }, params: vec![], doc: None });
        }
        "property_with_params" => {
            let ti = pick_v(c);
            s.types[ti].fields.push(FieldDef {
                name: "computed".into(),
                ty: Ty::named("Int", true),
                params: vec![ParamDef { name: "scale".into(), ty: Ty::named("Int", true), default: None }],
                doc: None,
            });
        }
        "default_list_with_bad_element" | "default_valid_list" => {
            // list defaults: every element has to fit, also below a nested list and also when it is an enum or an
            // input-object literal (those cannot even be converted to a value). Expressible defaults are real values, so
            // the reference validator type-checks them on its own; enum / object elements travel as raw marker text.
            // (the benign variant goes onto an object type: a new field on an interface would have to be repeated by
            // every implementer)
            let objects: Vec<usize> = vi.iter().copied().filter(|i| !s.types[*i].is_interface).collect();
            let ti = if label == "default_valid_list" && !objects.is_empty() { objects[c.below(objects.len())] } else { pick_v(c) };
            if label == "default_valid_list" && s.types[ti].is_interface {
                return None;
            }
            let target = s.types[vi[0]].name.clone();
            let int = |v: i128| Value::int(v);
            let l = Value::List;
            let (nulls, default): (Vec<bool>, Value) = if label == "default_valid_list" {
                match c.below(4) {
                    0 => (vec![false, false], l(vec![int(1), int(2), int(3)])),
                    1 => (vec![true, true], l(vec![int(1), Value::Null])),
                    2 => (vec![true, true, true], l(vec![l(vec![int(1)]), Value::Null, l(vec![])])),
                    _ => (vec![true, false], l(vec![])),
                }
            } else {
                match c.below(8) {
                    0 => (vec![false, false], Value::Str("\u{1}RAW:[1, {a: 2}, 3]".into())),
                    1 => (vec![true, true], Value::Str("\u{1}RAW:[RED]".into())),
                    2 => (vec![true, true, true], Value::Str("\u{1}RAW:[[1], {a: 1}]".into())),
                    3 => (vec![false, false], l(vec![int(1), Value::Bool(true)])),
                    4 => (vec![true, false], l(vec![int(1), Value::Null])),
                    5 => (vec![true, true, false], l(vec![l(vec![int(1)]), l(vec![Value::Null])])),
                    6 => (vec![true, true, true], l(vec![l(vec![int(1)]), int(2)])),
                    _ => (vec![true, true], l(vec![Value::Float(1.5)])),
                }
            };
            let n_fields = s.types[ti].fields.len();
            s.types[ti].fields.push(FieldDef {
                name: format!("{}_list_default_edge{}", if label == "default_valid_list" { "good" } else { "bad" }, n_fields),
                ty: Ty { base: target, nulls: vec![true, false] },
                params: with_neighbour_params(c, ParamDef { name: "xs".into(), ty: Ty { base: "Int".into(), nulls }, default: Some(default) }),
                doc: None,
            });
        }
        "default_wrong_type" | "default_null_for_nonnull" | "default_enum" | "default_object" => {
            let ti = pick_v(c);
            let target = s.types[vi[0]].name.clone();
            let (pty, default_text): (Ty, Value) = match label {
                "default_wrong_type" => (Ty::named("Int", true), Value::str("five")),
                "default_null_for_nonnull" => (Ty::named("Int", false), Value::Null),
                // enum / object literals are carried as raw text through a marker string value
                "default_enum" => (Ty::named("Int", true), Value::Str("\u{1}RAW:RED".into())),
                _ => (Ty::named("Int", true), Value::Str("\u{1}RAW:{a: 1}".into())),
            };
            s.types[ti].fields.push(FieldDef {
                name: "bad_default_edge".into(),
                ty: Ty { base: target, nulls: vec![true, false] },
                params: with_neighbour_params(c, ParamDef { name: "n".into(), ty: pty, default: Some(default_text) }),
                doc: None,
            });
        }
        "edge_list_of_list" => {
            let ti = pick_v(c);
            let target = s.types[vi[0]].name.clone();
            s.types[ti].fields.push(FieldDef { name: "matrix".into(), ty: Ty { base: target, nulls: vec![true, true, false] }, params: vec![], doc: None });
        }
        "ambiguous_origin" => {
            let f = FieldDef { name: "shared".into(), ty: Ty::named("Int", true), params: vec![], doc: None };
            s.types.push(TypeDef { name: "AmbA".into(), is_interface: true, implements: vec![], fields: vec![f.clone()], doc: None });
            s.types.push(TypeDef { name: "AmbB".into(), is_interface: true, implements: vec![], fields: vec![f.clone()], doc: None });
            s.types.push(TypeDef { name: "AmbT".into(), is_interface: false, implements: vec!["AmbA".into(), "AmbB".into()], fields: vec![f], doc: None });
        }
        "builtin_redefined" => {
            if c.chance(128) {
                s.scalars.push("Int".into());
            } else {
                let fields = vec![FieldDef { name: "x".into(), ty: Ty::named("Boolean", true), params: vec![], doc: None }];
                s.types.push(TypeDef { name: "String".into(), is_interface: false, implements: vec![], fields, doc: None });
            }
        }
        "benign_docs" => {
            let ti = c.below(s.types.len());
            s.types[ti].doc = Some("documentation \"with quotes\" and # hash".into());
            if let Some(f) = s.types[ti].fields.first_mut() {
                f.doc = Some("field docs".into());
            }
        }
        "benign_reorder_types" => s.types.reverse(),
        "benign_reorder_fields" => {
            let ti = c.below(s.types.len());
            s.types[ti].fields.reverse();
        }
        "benign_unused_scalar" => {
            if s.scalars.contains(&"Unused".to_string()) {
                return None;
            }
            s.scalars.push("Unused".into())
        }
        "benign_unused_directive" => {
            if s.extra_directives.contains(&"mine".to_string()) {
                return None;
            }
            s.extra_directives.push("mine".into())
        }
        "benign_no_directive_definitions" => {
            if s.extra_directives.iter().any(|d| d == "filter") {
                return None;
            }
            s.include_directives = false
        }
        "benign_id_property" => {
            let ti = pick_v(c);
            if s.types[ti].fields.iter().any(|f| f.name == "ident") || !s.types[ti].implements.is_empty() || s.types[ti].is_interface {
                return None;
            }
            s.types[ti].fields.push(FieldDef { name: "ident".into(), ty: Ty::named("ID", c.chance(128)), params: vec![], doc: None });
        }
        "benign_depth_30_property" => {
            let ti = pick_v(c);
            if s.types[ti].fields.iter().any(|f| f.name == "deep") || s.types[ti].is_interface {
                return None;
            }
            s.types[ti].fields.push(FieldDef { name: "deep".into(), ty: Ty { base: "Int".into(), nulls: (0..31).map(|i| i % 2 == 0).collect() }, params: vec![], doc: None });
        }
        "benign_legal_narrowing" => {
            let (ti, fi, _) = pick_inherited(c, s, None)?;
            // making the leaf implementer's field non-null at the outermost layer is always legal for object types
            if s.types[ti].is_interface {
                return None;
            }
            s.types[ti].fields[fi].ty.nulls[0] = false;
        }
        "benign_legal_param_widening" => {
            let mut cands = vec![];
            for (ti, t) in s.types.iter().enumerate() {
                if t.is_interface {
                    continue;
                }
                for (fi, f) in t.fields.iter().enumerate() {
                    if !f.params.is_empty() && t.implements.iter().any(|i| s.field(i, &f.name).is_some()) {
                        cands.push((ti, fi));
                    }
                }
            }
            if cands.is_empty() {
                return None;
            }
            let (ti, fi) = cands[c.below(cands.len())];
            s.types[ti].fields[fi].params[0].ty.nulls[0] = true;
        }
        _ => return None,
    }
    Some(Applied { label, violating })
}

pub fn render_mutated(s: &SchemaDoc) -> String {
    // raw default literals (enum / object) are smuggled through marker strings
    let mut text = s.render();
    while let Some(start) = text.find("\"\\u{1}RAW:") {
        let rest = &text[start + "\"\\u{1}RAW:".len()..];
        let end = rest.find('"').unwrap_or(rest.len());
        let raw = rest[..end].to_string();
        text = format!("{}{}{}", &text[..start], raw, &rest[(end + 1).min(rest.len())..]);
    }
    text
}

pub struct MutatedSchema {
    pub doc: SchemaDoc,
    pub sdl: String,
    pub applied: Vec<Applied>,
    pub has_interface: bool,
}

pub fn decode_mutated(c: &mut Choices<'_>, include_panic_family: bool) -> MutatedSchema {
    let cfg = SchemaGenConfig { docs: c.chance(60), ..SchemaGenConfig::default() };
    let mut doc = gen_schema(c, &cfg);
    let has_interface = doc.types.iter().any(|t| t.is_interface);
    let n_mut = match c.below(8) {
        0 => 0,
        1..=5 => 1,
        6 => 2,
        _ => 3,
    };
    let mut applied = vec![];
    for _ in 0..n_mut {
        let label = ALL_MUTATIONS[c.below(ALL_MUTATIONS.len())];
        if !include_panic_family && PANIC_FAMILY.contains(&label) {
            continue;
        }
        if let Some(a) = apply(c, &mut doc, label) {
            applied.push(a);
        }
    }
    let sdl = render_mutated(&doc);
    MutatedSchema { doc, sdl, applied, has_interface }
}

/// used by C14: a mutated schema text plus its labels
pub fn decode_mutated_schema(c: &mut Choices<'_>) -> (String, Vec<&'static str>) {
    let m = decode_mutated(c, false);
    (m.sdl, m.applied.iter().map(|a| a.label).collect())
}

/// reference verdict: the rule violations of the mutated AST (marker defaults count as ill-typed defaults)
fn reference_errors(m: &MutatedSchema) -> Vec<String> {
    validate_schema(&m.doc)
}

pub fn c19_case(bytes: &[u8], stats: &mut Stats, counting: bool, include_panic_family: bool) -> Verdict {
    let mut c = Choices::new(bytes);
    let m = decode_mutated(&mut c, include_panic_family);
    let errs = reference_errors(&m);
    let labels: Vec<&'static str> = m.applied.iter().map(|a| a.label).collect();
    let any_violating = m.applied.iter().any(|a| a.violating);
    // self-check of the reference validator against the labels
    if !any_violating && !errs.is_empty() {
        return Verdict::HarnessBug(format!("reference validator rejects a schema with only benign mutations {labels:?}: {errs:?}\n{}", m.sdl));
    }
    // (several mutations can cancel each other, e.g. a parameter added and removed again)
    if any_violating && m.applied.len() == 1 && errs.is_empty() {
        return Verdict::HarnessBug(format!("reference validator accepts a schema with violating mutations {labels:?}\n{}", m.sdl));
    }
    let outcome = engine::parse_schema(&m.sdl);
    if counting {
        for l in &labels {
            stats.label(&format!("mutation:{l}"));
        }
        if labels.is_empty() {
            stats.label("unmutated");
        }
        stats.label(match &outcome {
            Ok(Ok(_)) => "engine:accepts",
            Ok(Err(_)) => "engine:rejects",
            Err(_) => "engine:panics",
        });
        if (m.has_interface && !labels.is_empty()) || labels.len() >= 2 {
            if stats.nontrivial(m.sdl.as_bytes()) {
                stats.sample(|| json!({"schema": m.sdl, "mutations": labels, "reference_errors": errs}));
            }
        }
    }
    match outcome {
        Err(p) => Verdict::Fail {
            sig: format!("c19:schema-panic|{}|{}|mutations:{}", p.file(), first_line(&p.message).chars().take(70).collect::<String>(), labels.join(",")),
            msg: format!("Schema::parse panicked: {}\nmutations: {labels:?}\nschema:\n{}", p.render(), m.sdl),
        },
        Ok(Ok(_)) => {
            if errs.is_empty() {
                Verdict::Pass
            } else {
                Verdict::Fail {
                    sig: format!("c19:accepted-invalid-schema|{}", labels.join(",")),
                    msg: format!("engine accepted a schema that violates {errs:?}\nmutations: {labels:?}\nschema:\n{}", m.sdl),
                }
            }
        }
        Ok(Err(e)) => {
            if errs.is_empty() {
                Verdict::Fail {
                    sig: format!("c19:rejected-valid-schema|{}", labels.join(",")),
                    msg: format!("engine rejected a valid schema with {}\nmutations: {labels:?}\nschema:\n{}", first_line(&e), m.sdl),
                }
            } else {
                Verdict::Pass
            }
        }
    }
}

pub fn c19(ctx: &CheckCtx) -> i32 {
    if ctx.replay.is_some() {
        return replay_with(ctx, &|sub, bytes| c19_case(bytes, &mut Stats::default(), false, sub == "c19-listed"));
    }
    let mut report = Report::new(
        ctx,
        "choice stream -> valid-by-construction schema AST with 0-3 labelled mutations (34 rule-violating kinds, 10 benign \
         kinds), rendered to SDL; oracle 1: Schema::parse never unwinds; oracle 2: accepted iff an independent reference \
         validator over the AST (the rules enumerated in the property plus the structural ones) finds no violation. The \
         validator is cross-checked against the mutation labels (a disagreement is a harness self-check failure, exit 2). \
         Non-trivial: schema with an interface and >= 1 mutation, or >= 2 mutations; distinct by SDL hash.",
    );
    report.assume("unsupported constructs (enum, union, input, extend) and list depth > 30 are not generated");
    report.assume("the main search excludes the mutation kinds whose only known outcome is a listed panic; a second search includes them and tolerates exactly those signatures");
    let cases = ctx.cases(800_000, 8_000_000);
    let res = search(ctx, "c19", cases, 32, 500, |b, s, counting| c19_case(b, s, counting, false));
    report.absorb(res, &|b| {
        let mut c = Choices::new(b);
        let m = decode_mutated(&mut c, false);
        json!({"schema": m.sdl, "mutations": m.applied.iter().map(|a| a.label).collect::<Vec<_>>()})
    });
    let cases = ctx.cases(100_000, 1_000_000);
    let res = search(ctx, "c19-listed", cases, 32, 500, |b, s, counting| {
        let mut scratch = Stats::default();
        let v = c19_case(b, &mut scratch, counting, true);
        if counting {
            s.bump("cases_in_search_including_listed_findings", 1);
        }
        v
    });
    report.absorb(res, &|b| {
        let mut c = Choices::new(b);
        let m = decode_mutated(&mut c, true);
        json!({"schema": m.sdl, "mutations": m.applied.iter().map(|a| a.label).collect::<Vec<_>>()})
    });
    report.finish()
}
