//! One module per property (several properties share a module when they ride on the same runs).

use std::collections::BTreeMap;
use std::path::PathBuf;

use serde_json::Value as Json;

use crate::runner::{
    read_replay, write_replay, CheckCtx, Evidence, KnownFindings, SearchResult, Stats, Timer, Verdict,
};

pub mod adapters;
pub mod decode;
pub mod fieldvalue;
#[cfg(feature = "hooks")]
pub mod filters;
pub mod frontend;
pub mod hints;
pub mod introspect;
pub mod ir;
#[cfg(feature = "hooks")]
pub mod lattice;
pub mod meta;
pub mod misc;
pub mod python;
pub mod schema;
pub mod serial;
#[cfg(feature = "threads")]
pub mod threads;
pub mod world;

pub struct Report {
    pub ctx: CheckCtx,
    pub timer: Timer,
    pub stats: Stats,
    pub violations: Vec<(String, String, PathBuf)>,
    pub harness_bugs: Vec<String>,
    pub rule: String,
    pub assumptions: Vec<String>,
    pub extra: BTreeMap<String, Json>,
    pub known_lines: Vec<String>,
    pub exhaustive: Option<bool>,
    pub known: KnownFindings,
}

impl Report {
    pub fn new(ctx: &CheckCtx, rule: &str) -> Self {
        Self {
            ctx: ctx.clone(),
            timer: Timer::start(),
            stats: Stats { want_samples: 5, ..Stats::default() },
            violations: vec![],
            harness_bugs: vec![],
            rule: rule.to_string(),
            assumptions: vec![],
            extra: BTreeMap::new(),
            known_lines: vec![],
            exhaustive: None,
            known: KnownFindings::load(),
        }
    }

    pub fn assume(&mut self, s: &str) {
        self.assumptions.push(s.to_string());
    }

    /// merge a search result; `render` turns the minimal failing choice stream into a readable case
    pub fn absorb(&mut self, res: SearchResult, render: &dyn Fn(&[u8]) -> Json) {
        self.stats.merge(res.stats);
        for v in res.violations {
            // one replay file per signature class is enough; count the rest
            let class: String = v.sig.chars().take(90).collect();
            if self.violations.iter().filter(|(s, _, _)| s.chars().take(90).collect::<String>() == class).count() >= 2 {
                self.stats.bump("further_violations_with_an_already_reported_signature", 1);
                continue;
            }
            let rendered = render(&v.choices);
            let path = write_replay(&self.ctx.property, &v.subcheck, &v.choices, &v.sig, &v.msg, rendered);
            self.violations.push((v.sig, v.msg, path));
        }
        self.harness_bugs.extend(res.harness_bugs);
    }

    /// a directly-found violation (outside `search`)
    pub fn violation(&mut self, subcheck: &str, sig: &str, msg: &str, rendered: Json) {
        if let Some(kf) = self.known.matching(&self.ctx.property, sig) {
            *self.stats.known_hits.entry(kf.id.clone()).or_insert(0) += 1;
            return;
        }
        let path = write_replay(&self.ctx.property, subcheck, sig.as_bytes(), sig, msg, rendered);
        self.violations.push((sig.to_string(), msg.to_string(), path));
    }

    /// result of a dedicated probe for a listed finding: prints the KNOWN-FINDING line while it reproduces
    pub fn probe(&mut self, finding_id: &str, reproduces: bool) {
        if reproduces {
            *self.stats.known_hits.entry(finding_id.to_string()).or_insert(0) += 1;
        } else {
            self.stats.bump(&format!("probe_not_reproduced:{finding_id}"), 1);
        }
    }

    pub fn finish(mut self) -> i32 {
        // KNOWN-FINDING lines: one per listed open finding that was hit (search or probe)
        for (id, n) in self.stats.known_hits.clone() {
            if let Some(kf) = self.known.findings.iter().find(|f| f.id == id) {
                self.known_lines.push(format!(
                    "KNOWN-FINDING: property={} {} [{}; hits={}]",
                    self.ctx.property, kf.what, kf.id, n
                ));
            }
        }
        let ev = Evidence {
            property: self.ctx.property.clone(),
            tier: self.ctx.tier,
            seed: self.ctx.seed,
            rule: self.rule.clone(),
            stats: self.stats.clone(),
            assumptions: self.assumptions.clone(),
            violations: self.violations.len(),
            wall_s: self.timer.secs(),
            exhaustive: self.exhaustive,
            extra: self.extra.clone(),
        };
        ev.write();
        for l in &self.known_lines {
            println!("{l}");
        }
        println!(
            "property={} tier={} seed={} evaluations={} distinct_nontrivial={} discards={:?} wall_s={:.1}",
            self.ctx.property,
            self.ctx.tier.name(),
            self.ctx.seed,
            self.stats.evaluations,
            self.stats.nontrivial.len(),
            self.stats.discards,
            self.timer.secs()
        );
        if !self.harness_bugs.is_empty() {
            for h in self.harness_bugs.iter().take(3) {
                eprintln!("HARNESS-SELF-CHECK-FAILED: {h}");
            }
            if self.violations.is_empty() {
                return 2;
            }
        }
        if self.violations.is_empty() {
            0
        } else {
            for (sig, msg, path) in &self.violations {
                eprintln!("violation signature: {sig}\n{msg}\n");
                println!("VIOLATION property={} replay={}", self.ctx.property, path.display());
            }
            1
        }
    }
}

/// Strict single-case replay: no known-finding tolerance.
pub fn replay_with(ctx: &CheckCtx, run: &dyn Fn(&str, &[u8]) -> Verdict) -> i32 {
    let path = ctx.replay.clone().expect("replay path");
    let case = match read_replay(&path) {
        Ok(c) => c,
        Err(e) => {
            eprintln!("{e}");
            return 2;
        }
    };
    // inputs saved by the byte-level libFuzzer targets are text, not choice streams
    let verdict = match crate::fuzzentry::replay_text(&case.subcheck, &case.choices) {
        Some(v) => v,
        None => run(&case.subcheck, &case.choices),
    };
    match verdict {
        Verdict::Pass => {
            println!("replay: case passes");
            0
        }
        Verdict::Discard(r) => {
            println!("replay: case is discarded ({r})");
            0
        }
        Verdict::HarnessBug(m) => {
            eprintln!("replay: harness self-check failed: {m}");
            2
        }
        Verdict::Fail { sig, msg } => {
            eprintln!("replay: violation signature: {sig}\n{msg}");
            println!("VIOLATION property={} replay={}", ctx.property, path.display());
            1
        }
    }
}
