//! Deliberately naive, eager reference evaluator over (annotated query AST, dataset, arguments).
//! No iterators, no early exit, own operators (`values::apply_op`), own naming.

use std::collections::BTreeMap;

use crate::data::World;
use crate::query_ast::{ANode, Annotated, Arg, Filter, TagDef};
use crate::values::{apply_op, Value};

pub type Row = BTreeMap<String, Value>;

#[derive(Clone, Debug, Default)]
pub struct Env {
    /// query vertex -> Some(data vertex) | None (inside a missing @optional)
    pub bind: BTreeMap<usize, Option<u32>>,
    /// fold root vid -> Some(inner results) | None (fold below a missing @optional)
    pub folds: BTreeMap<usize, Option<Vec<Env>>>,
}

#[derive(Debug)]
pub struct Overflow;

pub struct RefEval<'a> {
    pub world: &'a World,
    pub ann: &'a Annotated,
    pub args: &'a BTreeMap<String, Value>,
    pub budget: usize,
    /// statistics: did some recursion visit the same data vertex along two different walks?
    pub multi_walk: bool,
    /// statistics: per fold root vid, the sizes seen
    pub fold_sizes: BTreeMap<usize, Vec<usize>>,
    pub missing_optional_seen: bool,
}

enum TagVal {
    Missing,
    Val(Value),
}

impl<'a> RefEval<'a> {
    pub fn new(world: &'a World, ann: &'a Annotated, args: &'a BTreeMap<String, Value>) -> Self {
        Self {
            world,
            ann,
            args,
            budget: 400_000,
            multi_walk: false,
            fold_sizes: BTreeMap::new(),
            missing_optional_seen: false,
        }
    }

    /// size of an environment including everything folded into it (what a clone of it costs)
    fn env_weight(env: &Env) -> usize {
        1 + env.bind.len()
            + env.folds.values().map(|f| f.as_ref().map(|v| v.iter().map(Self::env_weight).sum::<usize>()).unwrap_or(0)).sum::<usize>()
    }

    fn spend(&mut self, n: usize) -> Result<(), Overflow> {
        if self.budget < n {
            return Err(Overflow);
        }
        self.budget -= n;
        Ok(())
    }

    /// Rows grouped by starting vertex (in entrypoint order).
    pub fn eval_grouped(&mut self) -> Result<Vec<Vec<Row>>, Overflow> {
        let root = &self.ann.root;
        let starts = self.world.entry_vertices(&root.edge_name, &root.params);
        let mut out = vec![];
        for s in starts {
            let envs = self.eval_component(root, s, &[])?;
            let rows: Vec<Row> = envs.iter().map(|e| self.row_of(root, e)).collect();
            out.push(rows);
        }
        Ok(out)
    }

    pub fn eval(&mut self) -> Result<Vec<Row>, Overflow> {
        Ok(self.eval_grouped()?.into_iter().flatten().collect())
    }

    fn eval_component(&mut self, node: &ANode, start: u32, outer: &[&Env]) -> Result<Vec<Env>, Overflow> {
        let envs = self.enter_vertex(node, vec![(Env::default(), Some(start))], outer)?;
        self.process_children(node, envs, outer)
    }

    fn enter_vertex(
        &mut self,
        node: &ANode,
        candidates: Vec<(Env, Option<u32>)>,
        outer: &[&Env],
    ) -> Result<Vec<Env>, Overflow> {
        let mut out = vec![];
        // weighted by size: environments carry their folded sub-results and are cloned per candidate, so a plain count
        // lets a few pathological cases (found by the coverage-guided campaigns) take tens of seconds and gigabytes
        let weight: usize = candidates.iter().map(|(e, _)| Self::env_weight(e)).sum();
        self.spend(weight)?;
        for (mut env, b) in candidates {
            match b {
                None => {
                    // inside a missing optional scope: coercions and filters pass
                    self.missing_optional_seen = true;
                    env.bind.insert(node.vid, None);
                    out.push(env);
                }
                Some(id) => {
                    if node.coerced && !self.world.schema.is_subtype(&node.ty, &self.world.vertex(id).ty) {
                        continue;
                    }
                    env.bind.insert(node.vid, Some(id));
                    let mut ok = true;
                    'filters: for p in &node.props {
                        for f in &p.filters {
                            let left = self.world.prop(id, &p.name);
                            if !self.check_filter(&left, f, &env, outer) {
                                ok = false;
                                break 'filters;
                            }
                        }
                    }
                    if ok {
                        out.push(env);
                    }
                }
            }
        }
        Ok(out)
    }

    fn process_children(&mut self, node: &ANode, mut envs: Vec<Env>, outer: &[&Env]) -> Result<Vec<Env>, Overflow> {
        for child in &node.children {
            if child.fold {
                let mut next = vec![];
                for env in envs {
                    if let Some(e) = self.do_fold(node, child, env, outer)? {
                        next.push(e);
                    }
                }
                envs = next;
            } else {
                envs = self.expand(node, child, envs, outer)?;
                envs = self.process_children(child, envs, outer)?;
            }
        }
        Ok(envs)
    }

    fn walks(&mut self, id: u32, child: &ANode, depth_left: u32, out: &mut Vec<u32>) -> Result<(), Overflow> {
        self.spend(4)?;
        out.push(id);
        if depth_left == 0 {
            return Ok(());
        }
        for n in self.world.neighbors(id, &child.edge_name, &child.params) {
            self.walks(n, child, depth_left - 1, out)?;
        }
        Ok(())
    }

    fn expand(&mut self, node: &ANode, child: &ANode, envs: Vec<Env>, outer: &[&Env]) -> Result<Vec<Env>, Overflow> {
        let mut out = vec![];
        for env in envs {
            let src = *env.bind.get(&node.vid).expect("HARNESS: source vertex unbound");
            let candidates: Vec<(Env, Option<u32>)> = match src {
                None => vec![(env, None)],
                Some(id) => {
                    if let Some(d) = child.recurse {
                        let mut targets = vec![];
                        self.walks(id, child, d, &mut targets)?;
                        let mut sorted = targets.clone();
                        sorted.sort();
                        sorted.dedup();
                        if sorted.len() != targets.len() {
                            self.multi_walk = true;
                        }
                        targets.into_iter().map(|t| (env.clone(), Some(t))).collect()
                    } else {
                        let ns = self.world.neighbors(id, &child.edge_name, &child.params);
                        if ns.is_empty() {
                            if child.optional { vec![(env, None)] } else { vec![] }
                        } else {
                            ns.into_iter().map(|n| (env.clone(), Some(n))).collect()
                        }
                    }
                }
            };
            out.extend(self.enter_vertex(child, candidates, outer)?);
        }
        Ok(out)
    }

    fn do_fold(&mut self, node: &ANode, child: &ANode, mut env: Env, outer: &[&Env]) -> Result<Option<Env>, Overflow> {
        let src = *env.bind.get(&node.vid).expect("HARNESS: fold source unbound");
        match src {
            None => {
                env.folds.insert(child.vid, None);
                Ok(Some(env))
            }
            Some(id) => {
                let ns = self.world.neighbors(id, &child.edge_name, &child.params);
                let mut inner = vec![];
                {
                    let mut chain: Vec<&Env> = outer.to_vec();
                    chain.push(&env);
                    for n in ns {
                        inner.extend(self.eval_component(child, n, &chain)?);
                    }
                }
                let count = inner.len();
                self.fold_sizes.entry(child.vid).or_default().push(count);
                env.folds.insert(child.vid, Some(inner));
                if let Some(cs) = &child.count {
                    let left = Value::int(count as i128);
                    for f in &cs.filters {
                        if !self.check_filter(&left, f, &env, outer) {
                            return Ok(None);
                        }
                    }
                }
                Ok(Some(env))
            }
        }
    }

    fn lookup_tag(&self, name: &str, env: &Env, outer: &[&Env]) -> TagVal {
        let def = self.ann.tags.get(name).unwrap_or_else(|| panic!("HARNESS: unknown tag {name}"));
        let chain = std::iter::once(env).chain(outer.iter().rev().copied());
        match def {
            TagDef::Prop { vid, prop, .. } => {
                for e in chain {
                    if let Some(b) = e.bind.get(vid) {
                        return match b {
                            None => TagVal::Missing,
                            Some(id) => TagVal::Val(self.world.prop(*id, prop)),
                        };
                    }
                }
                panic!("HARNESS: tag {name} used before its vertex {vid} was bound");
            }
            TagDef::Count { fold_vid } => {
                for e in chain {
                    if let Some(f) = e.folds.get(fold_vid) {
                        return match f {
                            None => TagVal::Missing,
                            Some(list) => TagVal::Val(Value::int(list.len() as i128)),
                        };
                    }
                }
                panic!("HARNESS: count tag {name} used before fold {fold_vid} was computed");
            }
        }
    }

    fn check_filter(&self, left: &Value, f: &Filter, env: &Env, outer: &[&Env]) -> bool {
        let right = match &f.arg {
            None => Value::Null,
            Some(Arg::Var(v)) => {
                self.args.get(v).cloned().unwrap_or_else(|| panic!("HARNESS: no argument for ${v}"))
            }
            Some(Arg::Tag(t)) => match self.lookup_tag(t, env, outer) {
                TagVal::Missing => return true,
                TagVal::Val(v) => v,
            },
        };
        apply_op(f.op, left, &right).unwrap_or_else(|| {
            panic!("HARNESS: operator {} applied to unsupported operands {left:?} {right:?}", f.op.name())
        })
    }

    pub fn row_of(&self, comp_root: &ANode, env: &Env) -> Row {
        let mut row = Row::new();
        self.collect_component(comp_root, env, &mut row);
        row
    }

    fn collect_component(&self, node: &ANode, env: &Env, row: &mut Row) {
        let b = *env.bind.get(&node.vid).expect("HARNESS: unbound vertex in row construction");
        for o in &node.prop_outputs {
            let v = match b {
                None => Value::Null,
                Some(id) => self.world.prop(id, &o.prop),
            };
            row.insert(o.name.clone(), v);
        }
        for child in &node.children {
            if child.fold {
                match env.folds.get(&child.vid).expect("HARNESS: fold not computed") {
                    None => {
                        for name in child.all_output_names() {
                            row.insert(name, Value::Null);
                        }
                    }
                    Some(inner) => {
                        for name in &child.count_outputs {
                            row.insert(name.clone(), Value::uint(inner.len() as i128));
                        }
                        let inner_rows: Vec<Row> = inner.iter().map(|e| self.row_of(child, e)).collect();
                        for name in child.all_output_names() {
                            if child.count_outputs.contains(&name) {
                                continue;
                            }
                            let list: Vec<Value> = inner_rows
                                .iter()
                                .map(|r| r.get(&name).cloned().expect("HARNESS: inner row lacks output"))
                                .collect();
                            row.insert(name, Value::List(list));
                        }
                    }
                }
            } else {
                self.collect_component(child, env, row);
            }
        }
    }
}

pub fn canon_row(r: &Row) -> String {
    let mut s = String::new();
    for (k, v) in r {
        s.push_str(k);
        s.push('=');
        s.push_str(&v.canon());
        s.push(';');
    }
    s
}

pub fn canon_rows_sorted(rows: &[Row]) -> Vec<String> {
    let mut v: Vec<String> = rows.iter().map(canon_row).collect();
    v.sort();
    v
}
