//! Entry point shared by the libFuzzer binary (/verif/fuzz): coverage-guided search over the *same* inputs the
//! proptest tiers draw at random. One binary serves every target; `TFV_FUZZ_TARGET` selects the case function.
//!
//! * choice-stream targets (`c01`, `c02`, ... ): the bytes are the choice stream of the corresponding proptest sub-check,
//!   so a crash input is replayed by `tfcheck <ID> --replay <file>` exactly like a proptest failure;
//! * text targets (`c10-text`, `c19-text`, `c16-json`, `c16-ron`): the bytes are UTF-8 text handed to the engine's own parsers.
//!
//! A violation that is not a listed known finding writes a replay file under /verif/corpus/<ID>/, prints its
//! signature and aborts (so libFuzzer keeps the input as a crash artifact). Listed findings are tolerated in-target
//! and counted, so a campaign does not rediscover one crash forever.

use std::cell::RefCell;
use std::collections::BTreeMap;

use serde_json::json;

use crate::checks;
use crate::engine::{self, CompileOutcome};
use crate::runner::{write_replay, KnownFindings, Stats, Verdict};
use crate::worldcase::{first_line, GenConfig};

struct State {
    target: String,
    property: String,
    known: KnownFindings,
    stats: Stats,
    cfg: GenConfig,
    cfg_fold: GenConfig,
    stats_path: Option<String>,
    discards: u64,
    harness_bugs: u64,
}

thread_local! {
    static STATE: RefCell<Option<State>> = const { RefCell::new(None) };
}

pub const TARGETS: &[(&str, &str)] = &[
    ("c01", "C01"),
    ("c02", "C02"),
    ("c03", "C03"),
    ("c04", "C04"),
    ("c05", "C05"),
    ("c09", "C09"),
    ("c10", "C10"),
    ("c10-text", "C10"),
    ("c11", "C11"),
    ("c11-hostile", "C11"),
    ("c12", "C12"),
    ("c13", "C13"),
    ("c15", "C15"),
    ("c16-ir", "C16"),
    ("c16-json", "C16"),
    ("c16-ron", "C16"),
    ("c19", "C19"),
    ("c19-text", "C19"),
    ("c21", "C21"),
    ("c22-reference", "C22"),
    ("c22-meta", "C22"),
    ("c22-strip", "C22"),
    ("c23", "C23"),
];

fn init() -> State {
    engine::install_panic_hook();
    let target = std::env::var("TFV_FUZZ_TARGET").unwrap_or_else(|_| "c01".into());
    let property = TARGETS
        .iter()
        .find(|(t, _)| *t == target)
        .map(|(_, p)| p.to_string())
        .unwrap_or_else(|| {
            eprintln!("unknown TFV_FUZZ_TARGET {target}; known: {:?}", TARGETS.iter().map(|t| t.0).collect::<Vec<_>>());
            std::process::exit(2);
        });
    let cfg = checks::world::default_gen_config();
    let mut cfg_fold = checks::world::default_gen_config();
    cfg_fold.query.fold_bias = true;
    cfg_fold.query.quiet_folds = true;
    State {
        target,
        property,
        known: KnownFindings::load(),
        stats: Stats { want_samples: 5, ..Stats::default() },
        cfg,
        cfg_fold,
        stats_path: std::env::var("TFV_FUZZ_STATS").ok(),
        discards: 0,
        harness_bugs: 0,
    }
}

fn lossy(bytes: &[u8]) -> String {
    String::from_utf8_lossy(bytes).into_owned()
}

/// C10, byte level: first byte picks one of the repository's schemas, the rest is the query text.
fn c10_text_case(bytes: &[u8], stats: &mut Stats) -> Verdict {
    let corpus = checks::frontend::repo_corpus();
    if corpus.schemas.is_empty() || bytes.is_empty() {
        return Verdict::Discard("empty".into());
    }
    let names: Vec<&String> = corpus.schemas.keys().collect();
    let name = names[bytes[0] as usize % names.len()];
    let text = lossy(&bytes[1..]);
    // the third-party parser recurses natively: bound nesting like the structured generators do
    let mut depth = 0i32;
    let mut max_depth = 0i32;
    for ch in text.chars() {
        match ch {
            '{' | '[' | '(' => {
                depth += 1;
                max_depth = max_depth.max(depth);
            }
            '}' | ']' | ')' => depth -= 1,
            _ => {}
        }
    }
    if max_depth > 64 {
        return Verdict::Discard("nesting>64".into());
    }
    let (_, schema) = &corpus.schemas[name];
    match engine::compile(schema, &text) {
        CompileOutcome::Ok(_) => {
            stats.label("outcome:Ok");
            if stats.nontrivial(text.as_bytes()) {
                stats.sample(|| json!({"schema": name, "query": text, "outcome": "Ok"}));
            }
            Verdict::Pass
        }
        CompileOutcome::Err(e) => {
            let parser_rejected = e.starts_with("ParseError(InvalidGraphQL");
            if !parser_rejected {
                stats.label("outcome:typed-error-from-the-frontend-proper");
                stats.nontrivial(text.as_bytes());
            } else {
                stats.label("outcome:not-graphql");
            }
            Verdict::Pass
        }
        CompileOutcome::Panic(p) => Verdict::Fail {
            sig: format!("frontend-panic|{}|{}", p.file(), first_line(&p.message)),
            msg: format!("frontend panicked: {}\nschema: {name}\nquery text:\n{text}", p.render()),
        },
    }
}

/// C19, byte level: the bytes are the schema document. Unsupported constructs are outside the statement.
fn c19_text_case(bytes: &[u8], stats: &mut Stats) -> Verdict {
    let text = lossy(bytes);
    for kw in ["enum", "union", "input", "extend", "subscription", "mutation"] {
        if text.contains(kw) {
            return Verdict::Discard(format!("unsupported-construct:{kw}"));
        }
    }
    let mut depth = 0i32;
    let mut max_depth = 0i32;
    for ch in text.chars() {
        match ch {
            '{' | '[' | '(' => {
                depth += 1;
                max_depth = max_depth.max(depth);
            }
            '}' | ']' | ')' => depth -= 1,
            _ => {}
        }
    }
    if max_depth > 40 {
        return Verdict::Discard("nesting>40".into());
    }
    match engine::parse_schema(&text) {
        Ok(Ok(_)) => {
            stats.label("outcome:accepted");
            if stats.nontrivial(text.as_bytes()) {
                stats.sample(|| json!({"schema": text, "outcome": "accepted"}));
            }
            Verdict::Pass
        }
        Ok(Err(e)) => {
            if e.starts_with("SchemaParseError") {
                stats.label("outcome:not-graphql");
            } else {
                stats.label("outcome:typed-schema-error");
                stats.nontrivial(text.as_bytes());
            }
            Verdict::Pass
        }
        Err(p) => {
            // same signature shape as the structured C19 search: the listed Schema::new panics are keyed by panic
            // message *and* by the precondition, which is derived here from the text instead of from mutation labels
            let labels = derive_schema_labels(&text);
            Verdict::Fail {
                sig: format!(
                    "c19:schema-panic|{}|{}|mutations:{}",
                    p.file(),
                    first_line(&p.message).chars().take(70).collect::<String>(),
                    labels.join(",")
                ),
                msg: format!("Schema::parse panicked: {}\nderived preconditions: {labels:?}\nschema text:\n{text}", p.render()),
            }
        }
    }
}

/// preconditions of the listed `Schema::new` panics, recognised in raw schema text
pub fn derive_schema_labels(text: &str) -> Vec<&'static str> {
    // structural, with the engine's own parser (a regular expression over the raw text was fooled by descriptions,
    // commas-as-whitespace and `type Int`): a document that does not parse never reaches `Schema::new`
    use async_graphql_parser::types::{TypeKind, TypeSystemDefinition};
    let Ok(doc) = async_graphql_parser::parse_schema(text) else { return vec![] };
    let mut labels: Vec<&'static str> = vec![];
    let mut blocks = 0usize;
    let mut roots: Vec<String> = vec![];
    let mut directives = std::collections::BTreeSet::new();
    let mut scalars = std::collections::BTreeSet::new();
    let mut objects = std::collections::BTreeSet::new();
    let mut interfaces = std::collections::BTreeSet::new();
    let (mut dup_directive, mut dup_scalar, mut builtin) = (false, false, false);
    for def in &doc.definitions {
        match def {
            TypeSystemDefinition::Schema(s) => {
                blocks += 1;
                if let Some(q) = &s.node.query {
                    roots.push(q.node.to_string());
                }
            }
            TypeSystemDefinition::Directive(d) => {
                if !directives.insert(d.node.name.node.to_string()) {
                    dup_directive = true;
                }
            }
            TypeSystemDefinition::Type(t) => {
                let name = t.node.name.node.to_string();
                if ["Int", "Float", "String", "Boolean", "ID"].contains(&name.as_str()) {
                    builtin = true;
                }
                match &t.node.kind {
                    TypeKind::Scalar => {
                        if !scalars.insert(name) {
                            dup_scalar = true;
                        }
                    }
                    TypeKind::Object(_) => {
                        objects.insert(name);
                    }
                    TypeKind::Interface(_) => {
                        interfaces.insert(name);
                    }
                    _ => {}
                }
            }
        }
    }
    if blocks >= 2 {
        labels.push("dup_schema_block");
    }
    if blocks == 0 {
        labels.push("no_schema_block");
    }
    if dup_directive {
        labels.push("dup_directive");
    }
    if dup_scalar {
        labels.push("dup_scalar");
    }
    if builtin {
        labels.push("builtin_redefined");
    }
    if roots.iter().any(|r| interfaces.contains(r)) {
        labels.push("root_interface");
    }
    // (a schema block without a `query:` entry names no root type at all)
    if roots.iter().any(|r| !objects.contains(r) && !interfaces.contains(r)) || (blocks >= 1 && roots.is_empty()) {
        labels.push("root_undefined");
    }
    labels
}

/// strict replay of a text-target input (no known-finding tolerance)
pub fn replay_text(target: &str, bytes: &[u8]) -> Option<Verdict> {
    let mut stats = Stats::default();
    match target {
        "c10-text" => Some(c10_text_case(bytes, &mut stats)),
        "c19-text" => Some(c19_text_case(bytes, &mut stats)),
        "c16-json" => Some(c16_text_case(bytes, &mut stats, false)),
        "c16-ron" => Some(c16_text_case(bytes, &mut stats, true)),
        _ => None,
    }
}

/// C16, byte level: any text that deserialises as a FieldValue / Type must survive serialise -> deserialise unchanged.
fn c16_text_case(bytes: &[u8], stats: &mut Stats, ron_format: bool) -> Verdict {
    use trustfall_core::ir::{FieldValue, Type};
    let text = lossy(bytes);
    let fmt = if ron_format { "ron" } else { "json" };
    fn has_enum_or_nonfinite(v: &FieldValue) -> bool {
        match v {
            FieldValue::Enum(_) => true,
            FieldValue::Float64(f) => !f.is_finite(),
            FieldValue::List(l) => l.iter().any(has_enum_or_nonfinite),
            _ => false,
        }
    }
    let de_v = |s: &str| -> Option<FieldValue> {
        if ron_format {
            ron::from_str::<FieldValue>(s).ok()
        } else {
            serde_json::from_str::<FieldValue>(s).ok()
        }
    };
    let ser_v = |v: &FieldValue| -> Option<String> {
        if ron_format {
            ron::to_string(v).ok()
        } else {
            serde_json::to_string(v).ok()
        }
    };
    let mut any = false;
    if let Some(v) = de_v(&text) {
        any = true;
        // enums are a listed finding for untagged JSON; non-finite floats are outside the statement ("finite")
        if !has_enum_or_nonfinite(&v) {
            stats.label(&format!("{fmt}:value-parsed"));
            if stats.nontrivial(text.as_bytes()) {
                stats.sample(|| json!({"format": fmt, "text": text}));
            }
            let Some(s) = ser_v(&v) else {
                return Verdict::Fail { sig: format!("c16:{fmt}:value-does-not-serialise"), msg: format!("{v:?}") };
            };
            match de_v(&s) {
                Some(back) if back == v && format!("{back:?}") == format!("{v:?}") => {}
                other => {
                    return Verdict::Fail {
                        sig: format!("c16:{fmt}:value-roundtrip"),
                        msg: format!("value {v:?} serialised to {s} and came back as {other:?}"),
                    };
                }
            }
        }
    }
    let de_t = |s: &str| -> Option<Type> {
        if ron_format {
            ron::from_str::<Type>(s).ok()
        } else {
            serde_json::from_str::<Type>(s).ok()
        }
    };
    if let Some(t) = de_t(&text) {
        any = true;
        stats.label(&format!("{fmt}:type-parsed"));
        stats.nontrivial(text.as_bytes());
        let s = if ron_format { ron::to_string(&t).ok() } else { serde_json::to_string(&t).ok() };
        let Some(s) = s else {
            return Verdict::Fail { sig: format!("c16:{fmt}:type-does-not-serialise"), msg: format!("{t:?}") };
        };
        if de_t(&s).as_ref() != Some(&t) {
            return Verdict::Fail { sig: format!("c16:{fmt}:type-roundtrip"), msg: format!("type {t:?} serialised to {s} and came back as {:?}", de_t(&s)) };
        }
        let shown = t.to_string();
        match Type::parse(&shown) {
            Ok(back) if back == t => {}
            other => {
                return Verdict::Fail { sig: "c16:type-display-parse".into(), msg: format!("type {t:?} renders as {shown} which parses as {other:?}") };
            }
        }
    }
    // bare type text as well: Type::parse(text) then Display must give a type that parses back to the same value
    if let Ok(t) = Type::parse(text.trim()) {
        any = true;
        stats.label("type-text-parsed");
        let shown = t.to_string();
        match Type::parse(&shown) {
            Ok(back) if back == t => {}
            other => {
                return Verdict::Fail { sig: "c16:type-display-parse".into(), msg: format!("type text {text:?} parsed as {t:?}, renders as {shown}, which parses as {other:?}") };
            }
        }
    }
    if any {
        Verdict::Pass
    } else {
        Verdict::Discard("parses-as-neither-value-nor-type".into())
    }
}

fn run_target(st: &mut State, bytes: &[u8]) -> Verdict {
    let State { target, stats, cfg, cfg_fold, .. } = st;
    match target.as_str() {
        "c01" => checks::world::c01_case(bytes, stats, true, cfg),
        "c02" => checks::adapters::c02_case(bytes, stats, true, cfg, 24),
        "c03" => checks::adapters::c03_case(bytes, stats, true, cfg),
        "c04" => checks::hints::c04_case(bytes, stats, true, cfg, true),
        "c05" => checks::adapters::c05_case(bytes, stats, true, cfg),
        "c09" => checks::world::c09_case(bytes, stats, true, cfg),
        "c10" => checks::frontend::c10_case(bytes, stats, true),
        "c10-text" => c10_text_case(bytes, stats),
        "c11" => checks::ir::c11_case(bytes, stats, true, cfg),
        "c11-hostile" => checks::frontend::c11_hostile_case(bytes, stats, true),
        "c12" => checks::misc::c12_case(bytes, stats, true, cfg),
        "c13" => checks::ir::c13_case(bytes, stats, true, cfg),
        "c15" => checks::misc::c15_case(bytes, stats, true, cfg),
        "c16-ir" => checks::serial::c16_ir_case(bytes, stats, true, cfg),
        "c16-json" => c16_text_case(bytes, stats, false),
        "c16-ron" => c16_text_case(bytes, stats, true),
        "c19" => checks::schema::c19_case(bytes, stats, true, false),
        "c19-text" => c19_text_case(bytes, stats),
        "c21" => checks::adapters::c21_case(bytes, stats, true, cfg),
        "c22-reference" => checks::meta::c22_reference_case(bytes, stats, true, cfg_fold),
        "c22-meta" => checks::meta::c22_meta_case(bytes, stats, true, cfg_fold),
        "c22-strip" => checks::meta::c22_strip_case(bytes, stats, true, cfg_fold),
        "c23" => checks::meta::c23_case(bytes, stats, true, cfg),
        _ => unreachable!(),
    }
}

fn write_stats(st: &State) {
    let Some(path) = &st.stats_path else { return };
    let labels: BTreeMap<&String, &u64> = st.stats.labels.iter().collect();
    let j = json!({
        "target": st.target,
        "property": st.property,
        "executions": st.stats.evaluations,
        "distinct_nontrivial": st.stats.nontrivial.len(),
        "discards": st.stats.discards,
        "discarded_total": st.discards,
        "harness_self_check_failures": st.harness_bugs,
        "known_finding_hits": st.stats.known_hits,
        "labels": labels,
        "samples": st.stats.samples,
    });
    let tmp = format!("{path}.tmp");
    if std::fs::write(&tmp, serde_json::to_string(&j).unwrap()).is_ok() {
        let _ = std::fs::rename(&tmp, path);
    }
}

/// One libFuzzer iteration.
pub fn fuzz_one(bytes: &[u8]) {
    STATE.with(|cell| {
        let mut slot = cell.borrow_mut();
        if slot.is_none() {
            *slot = Some(init());
        }
        let st = slot.as_mut().unwrap();
        st.stats.evaluations += 1;
        let verdict = match engine::catch(std::panic::AssertUnwindSafe(|| run_target(st, bytes))) {
            Ok(v) => v,
            Err(p) => Verdict::HarnessBug(format!("case function panicked: {}", p.render())),
        };
        match verdict {
            Verdict::Pass => {}
            Verdict::Discard(r) => {
                st.discards += 1;
                st.stats.discard(&r);
            }
            Verdict::HarnessBug(m) => {
                // never a violation; remembered in the statistics (the proptest tiers report these with exit 2)
                if st.harness_bugs == 0 {
                    eprintln!("HARNESS-SELF-CHECK-FAILED (fuzz target {}): {m}", st.target);
                }
                st.harness_bugs += 1;
            }
            Verdict::Fail { sig, msg } => {
                if let Some(kf) = st.known.matching(&st.property, &sig) {
                    *st.stats.known_hits.entry(kf.id.clone()).or_insert(0) += 1;
                } else {
                    let rendered = json!({"fuzz_target": st.target, "text": lossy(bytes)});
                    let path = write_replay(&st.property, &st.target, bytes, &sig, &msg, rendered);
                    eprintln!("violation signature: {sig}\n{msg}");
                    eprintln!("FUZZ-VIOLATION property={} replay={}", st.property, path.display());
                    write_stats(st);
                    std::process::abort();
                }
            }
        }
        if st.stats.evaluations % 2000 == 0 {
            write_stats(st);
        }
    });
}
