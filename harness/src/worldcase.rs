//! Decoding a choice stream into a complete world case (schema, data, query, arguments),
//! and compiling it with the engine.

use std::{collections::BTreeMap, sync::Arc};

use serde_json::json;
use trustfall_core::{ir::IndexedQuery, schema::Schema};

use crate::choice::Choices;
use crate::data::{gen_dataset, DataGenConfig, World};
use crate::engine::{self, CompileOutcome};
use crate::query_ast::{
    annotate, features, gen_args, gen_query, Annotated, ArgGenConfig, Features, Query, QueryGenConfig,
};
use crate::runner::Verdict;
use crate::schema_ast::{gen_schema, SchemaGenConfig};
use crate::values::Value;

#[derive(Clone, Debug, Default)]
pub struct GenConfig {
    pub schema: SchemaGenConfig,
    pub data: DataGenConfig,
    pub query: QueryGenConfig,
    pub args: ArgGenConfig,
}

pub struct WorldCase {
    pub world: Arc<World>,
    pub query: Query,
    pub ann: Annotated,
    pub args: BTreeMap<String, Value>,
    pub sdl: String,
    pub query_text: String,
    pub features: Features,
}

impl WorldCase {
    pub fn to_json(&self) -> serde_json::Value {
        json!({
            "world": self.world.to_json(),
            "query": self.query_text,
            "args": self.args.iter().map(|(k, v)| (k.clone(), v.to_json())).collect::<serde_json::Map<_, _>>(),
        })
    }
    pub fn short_json(&self) -> serde_json::Value {
        json!({
            "schema": self.sdl,
            "n_vertices": self.world.data.vertices.len(),
            "query": self.query_text,
            "args": self.args.iter().map(|(k, v)| (k.clone(), v.to_json())).collect::<serde_json::Map<_, _>>(),
        })
    }
    pub fn key(&self) -> Vec<u8> {
        let mut k = self.sdl.clone().into_bytes();
        k.extend(self.query_text.as_bytes());
        k.extend(format!("{:?}", self.world.data).as_bytes());
        k.extend(format!("{:?}", self.args).as_bytes());
        k
    }
}

pub fn decode_world_case(c: &mut Choices<'_>, cfg: &GenConfig) -> WorldCase {
    let schema = gen_schema(c, &cfg.schema);
    let data = gen_dataset(c, &schema, &cfg.data);
    let query = gen_query(c, &schema, &cfg.query);
    let ann = annotate(&schema, &query);
    let args = gen_args(c, &ann, &cfg.args);
    let sdl = schema.render();
    let query_text = query.render();
    let features = features(&ann);
    WorldCase { world: Arc::new(World { schema, data }), query, ann, args, sdl, query_text, features }
}

pub struct CompiledCase {
    pub schema: Schema,
    pub iq: Arc<IndexedQuery>,
}

/// Compile schema and query with the engine. A rejected *generated-valid* schema is a harness bug;
/// a rejected query is a (counted) discard; panics are reported with their own signatures so that
/// each check can route them.
pub fn compile_case(case: &WorldCase) -> Result<CompiledCase, Verdict> {
    if !case.ann.errors.is_empty() {
        return Err(Verdict::HarnessBug(format!(
            "generator produced a query its own annotator rejects: {:?}\n{}",
            case.ann.errors, case.query_text
        )));
    }
    let schema = match engine::parse_schema(&case.sdl) {
        Ok(Ok(s)) => s,
        Ok(Err(e)) => {
            return Err(Verdict::HarnessBug(format!("generated schema rejected: {e}\n{}", case.sdl)));
        }
        Err(p) => {
            return Err(Verdict::HarnessBug(format!(
                "generated schema made Schema::parse panic: {}\n{}",
                p.render(),
                case.sdl
            )));
        }
    };
    match engine::compile(&schema, &case.query_text) {
        CompileOutcome::Ok(iq) => Ok(CompiledCase { schema, iq }),
        CompileOutcome::Err(e) => {
            let kind = e.split(['(', ' ', '{']).next().unwrap_or("?").to_string();
            Err(Verdict::Discard(format!("frontend-rejected:{kind}")))
        }
        CompileOutcome::Panic(p) => Err(Verdict::Fail {
            sig: format!("frontend-panic|{}|{}", p.location, first_line(&p.message)),
            msg: format!("frontend panicked: {}\nquery:\n{}", p.render(), case.query_text),
        }),
    }
}

pub fn first_line(s: &str) -> String {
    s.lines().next().unwrap_or("").chars().take(160).collect()
}
