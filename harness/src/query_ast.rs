//! Harness-side query AST (mirrors the language, not the engine's types), renderer,
//! static annotation (own vid numbering, output naming, variable-type inference) and generator.

use std::collections::{BTreeMap, BTreeSet};

use crate::choice::Choices;
use crate::data::gen_value_of_type;
use crate::schema_ast::SchemaDoc;
use crate::values::{Op, Ty, Value};

#[derive(Clone, Debug, PartialEq)]
pub enum Arg {
    Var(String),
    Tag(String),
}

#[derive(Clone, Debug, PartialEq)]
pub struct Filter {
    pub op: Op,
    pub arg: Option<Arg>,
}

#[derive(Clone, Debug, PartialEq, Default)]
pub struct PropSel {
    pub name: String,
    pub alias: Option<String>,
    /// each output: explicit name or None (implicit, alias/field derived)
    pub outputs: Vec<Option<String>>,
    pub filters: Vec<Filter>,
    /// each tag: explicit name or None (implicit)
    pub tags: Vec<Option<String>>,
}

#[derive(Clone, Debug, PartialEq, Default)]
pub struct CountSel {
    pub outputs: Vec<Option<String>>,
    pub filters: Vec<Filter>,
    pub tags: Vec<String>,
}

#[derive(Clone, Debug, PartialEq, Default)]
pub struct EdgeSel {
    pub name: String,
    pub alias: Option<String>,
    pub args: Vec<(String, Value)>,
    pub optional: bool,
    pub recurse: Option<u32>,
    pub fold: bool,
    pub count: Option<CountSel>,
    pub coerce: Option<String>,
    pub body: Vec<Sel>,
}

#[derive(Clone, Debug, PartialEq)]
pub enum Sel {
    Prop(PropSel),
    Edge(EdgeSel),
}

#[derive(Clone, Debug, PartialEq)]
pub struct Query {
    pub root: EdgeSel,
}

// ---------------------------------------------------------------------------------------------
// rendering

fn render_filter(f: &Filter, out: &mut String) {
    out.push_str(&format!(" @filter(op: \"{}\"", f.op.name()));
    match &f.arg {
        None => {}
        Some(Arg::Var(v)) => out.push_str(&format!(", value: [\"${v}\"]")),
        Some(Arg::Tag(t)) => out.push_str(&format!(", value: [\"%{t}\"]")),
    }
    out.push(')');
}

fn render_output(o: &Option<String>, out: &mut String) {
    match o {
        None => out.push_str(" @output"),
        Some(n) => out.push_str(&format!(" @output(name: \"{n}\")")),
    }
}

fn render_edge(e: &EdgeSel, indent: usize, out: &mut String) {
    let pad = "  ".repeat(indent);
    out.push_str(&pad);
    if let Some(a) = &e.alias {
        out.push_str(a);
        out.push_str(": ");
    }
    out.push_str(&e.name);
    if !e.args.is_empty() {
        out.push('(');
        let parts: Vec<String> = e.args.iter().map(|(k, v)| format!("{k}: {}", v.to_graphql())).collect();
        out.push_str(&parts.join(", "));
        out.push(')');
    }
    if e.optional {
        out.push_str(" @optional");
    }
    if let Some(d) = e.recurse {
        out.push_str(&format!(" @recurse(depth: {d})"));
    }
    if e.fold {
        out.push_str(" @fold");
        if let Some(cs) = &e.count {
            out.push_str(" @transform(op: \"count\")");
            for o in &cs.outputs {
                render_output(o, out);
            }
            for f in &cs.filters {
                render_filter(f, out);
            }
            for t in &cs.tags {
                out.push_str(&format!(" @tag(name: \"{t}\")"));
            }
        }
    }
    out.push_str(" {\n");
    let (inner_indent, close_coerce) = if let Some(c) = &e.coerce {
        out.push_str(&format!("{pad}  ... on {c} {{\n"));
        (indent + 2, true)
    } else {
        (indent + 1, false)
    };
    let ipad = "  ".repeat(inner_indent);
    for s in &e.body {
        match s {
            Sel::Prop(p) => {
                out.push_str(&ipad);
                if let Some(a) = &p.alias {
                    out.push_str(a);
                    out.push_str(": ");
                }
                out.push_str(&p.name);
                for t in &p.tags {
                    match t {
                        None => out.push_str(" @tag"),
                        Some(n) => out.push_str(&format!(" @tag(name: \"{n}\")")),
                    }
                }
                for o in &p.outputs {
                    render_output(o, out);
                }
                for f in &p.filters {
                    render_filter(f, out);
                }
                out.push('\n');
            }
            Sel::Edge(child) => render_edge(child, inner_indent, out),
        }
    }
    if close_coerce {
        out.push_str(&format!("{pad}  }}\n"));
    }
    out.push_str(&pad);
    out.push_str("}\n");
}

impl Query {
    pub fn render(&self) -> String {
        let mut out = String::from("{\n");
        render_edge(&self.root, 1, &mut out);
        out.push_str("}\n");
        out
    }
}

// ---------------------------------------------------------------------------------------------
// annotation

#[derive(Clone, Debug, PartialEq)]
pub enum TagDef {
    Prop { vid: usize, prop: String, ty: Ty },
    Count { fold_vid: usize },
}

impl TagDef {
    pub fn ty(&self) -> Ty {
        match self {
            TagDef::Prop { ty, .. } => ty.clone(),
            TagDef::Count { .. } => Ty::named("Int", false),
        }
    }
    pub fn def_vid(&self) -> usize {
        match self {
            TagDef::Prop { vid, .. } => *vid,
            TagDef::Count { fold_vid } => *fold_vid,
        }
    }
}

#[derive(Clone, Debug)]
pub struct PropOut {
    pub name: String,
    pub prop: String,
    pub ty: Ty,
}

/// An annotated query vertex (one per edge selection, root included).
#[derive(Clone, Debug)]
pub struct ANode {
    pub vid: usize,
    pub edge_name: String,
    /// static type of the vertex the edge leaves from (root query type for the root)
    pub from_type: String,
    /// edge target type as declared on `from_type`
    pub pre_type: String,
    /// static type after coercion
    pub ty: String,
    pub coerced: bool,
    /// explicit arguments plus the schema's defaults (null for nullable parameters without default)
    pub params: BTreeMap<String, Value>,
    pub optional: bool,
    pub recurse: Option<u32>,
    pub fold: bool,
    pub count: Option<CountSel>,
    pub count_outputs: Vec<String>,
    pub props: Vec<PropSel>,
    pub prop_outputs: Vec<PropOut>,
    pub children: Vec<ANode>,
    /// chain of component roots (vids) from the query root down to this vertex's component
    pub path: Vec<usize>,
    /// true when some edge between this vertex and its component root (inclusive of own edge) is @optional
    pub in_optional: bool,
    /// whether the vertex this edge leaves from is itself inside an optional scope of its component
    pub source_in_optional: bool,
}

#[derive(Clone, Debug)]
pub struct Annotated {
    pub root: ANode,
    pub tags: BTreeMap<String, TagDef>,
    /// every variable with the type the documented inference rule gives it (uses intersected)
    pub var_types: BTreeMap<String, Ty>,
    /// every variable use with its use-site type and operator
    pub var_uses: Vec<(String, Ty, Op, bool)>,
    pub n_vertices: usize,
    pub errors: Vec<String>,
}

pub fn prop_type(schema: &SchemaDoc, ty: &str, prop: &str) -> Option<Ty> {
    if prop == "__typename" {
        return Some(Ty::named("String", false));
    }
    schema.field(ty, prop).map(|f| f.ty.clone())
}

/// The type the documentation says a variable has when used with `op` against a property of type `pt`.
pub fn infer_var_type(op: Op, pt: &Ty) -> Option<Ty> {
    match op {
        Op::Eq | Op::Ne => Some(pt.clone()),
        Op::Lt | Op::Le | Op::Gt | Op::Ge => Some(pt.with_nullable(false)),
        Op::Contains | Op::NotContains => pt.elem(),
        Op::OneOf | Op::NotOneOf => Some(Ty::list_of(pt, false)),
        Op::HasPrefix | Op::NotHasPrefix | Op::HasSuffix | Op::NotHasSuffix | Op::HasSubstring
        | Op::NotHasSubstring | Op::Regex | Op::NotRegex => Some(Ty::named("String", false)),
        Op::IsNull | Op::IsNotNull => None,
    }
}

struct AnnCtx<'s> {
    schema: &'s SchemaDoc,
    next_vid: usize,
    tags: BTreeMap<String, TagDef>,
    var_types: BTreeMap<String, Ty>,
    var_uses: Vec<(String, Ty, Op, bool)>,
    errors: Vec<String>,
}

pub fn annotate(schema: &SchemaDoc, q: &Query) -> Annotated {
    let mut ctx = AnnCtx {
        schema,
        next_vid: 1,
        tags: BTreeMap::new(),
        var_types: BTreeMap::new(),
        var_uses: vec![],
        errors: vec![],
    };
    let root_type = schema.root.clone();
    let root = ann_edge(&mut ctx, &q.root, &root_type, &[], &[], false, true);
    Annotated {
        root,
        tags: ctx.tags,
        var_types: ctx.var_types,
        var_uses: ctx.var_uses,
        n_vertices: ctx.next_vid - 1,
        errors: ctx.errors,
    }
}

fn record_var(ctx: &mut AnnCtx<'_>, f: &Filter, left: &Ty, is_count: bool) {
    if let Some(Arg::Var(v)) = &f.arg {
        match infer_var_type(f.op, left) {
            None => ctx.errors.push(format!("operator {} takes no variable", f.op.name())),
            Some(t) => {
                ctx.var_uses.push((v.clone(), t.clone(), f.op, is_count));
                match ctx.var_types.get(v) {
                    None => {
                        ctx.var_types.insert(v.clone(), t);
                    }
                    Some(prev) => match prev.intersect(&t) {
                        Some(i) => {
                            ctx.var_types.insert(v.clone(), i);
                        }
                        None => ctx.errors.push(format!("variable {v} has incompatible uses")),
                    },
                }
            }
        }
    }
}

fn ann_edge(
    ctx: &mut AnnCtx<'_>,
    e: &EdgeSel,
    from_type: &str,
    parent_path: &[usize],
    prefixes: &[String],
    parent_in_optional: bool,
    is_root: bool,
) -> ANode {
    let vid = ctx.next_vid;
    ctx.next_vid += 1;
    let fdef = ctx.schema.field(from_type, &e.name);
    let pre_type = fdef.map(|f| f.ty.base.clone()).unwrap_or_else(|| {
        ctx.errors.push(format!("no edge {} on {from_type}", e.name));
        String::from("?")
    });
    let ty = e.coerce.clone().unwrap_or_else(|| pre_type.clone());
    let mut params = BTreeMap::new();
    if let Some(fd) = fdef {
        for p in &fd.params {
            let explicit = e.args.iter().find(|(k, _)| k == &p.name).map(|(_, v)| v.clone());
            let v = match explicit {
                Some(v) => v,
                None => match &p.default {
                    Some(d) => d.clone(),
                    None => {
                        if !p.ty.nullable() {
                            ctx.errors.push(format!("missing required parameter {}", p.name));
                        }
                        Value::Null
                    }
                },
            };
            params.insert(p.name.clone(), v);
        }
    }
    let mut path = parent_path.to_vec();
    if is_root || e.fold {
        path.push(vid);
    }
    let in_optional = if e.fold || is_root { false } else { parent_in_optional || e.optional };
    let mut my_prefixes = prefixes.to_vec();
    if !is_root {
        if let Some(a) = &e.alias {
            my_prefixes.push(a.clone());
        }
    }
    let mut props = vec![];
    let mut prop_outputs = vec![];
    let mut children = vec![];
    for s in &e.body {
        match s {
            Sel::Prop(p) => {
                let pt = prop_type(ctx.schema, &ty, &p.name);
                let Some(pt) = pt else {
                    ctx.errors.push(format!("no property {} on {ty}", p.name));
                    continue;
                };
                for o in &p.outputs {
                    let name = match o {
                        Some(n) => n.clone(),
                        None => {
                            let local = p.alias.clone().unwrap_or_else(|| p.name.clone());
                            format!("{}{}", my_prefixes.concat(), local)
                        }
                    };
                    prop_outputs.push(PropOut { name, prop: p.name.clone(), ty: pt.clone() });
                }
                for t in &p.tags {
                    let name = match t {
                        Some(n) => n.clone(),
                        None => p.alias.clone().unwrap_or_else(|| p.name.clone()),
                    };
                    if ctx.tags.contains_key(&name) {
                        ctx.errors.push(format!("duplicate tag {name}"));
                    }
                    ctx.tags.insert(name, TagDef::Prop { vid, prop: p.name.clone(), ty: pt.clone() });
                }
                for f in &p.filters {
                    record_var(ctx, f, &pt, false);
                }
                props.push(p.clone());
            }
            Sel::Edge(child) => {
                let node = ann_edge(ctx, child, &ty, &path, &my_prefixes, in_optional, false);
                children.push(node);
            }
        }
    }
    let mut count_outputs = vec![];
    if let Some(cs) = &e.count {
        let int_ty = Ty::named("Int", false);
        for f in &cs.filters {
            record_var(ctx, f, &int_ty, true);
        }
        for o in &cs.outputs {
            let name = match o {
                Some(n) => n.clone(),
                None => {
                    let local = if e.alias.is_some() { String::new() } else { e.name.clone() };
                    format!("{}{}count", my_prefixes.concat(), local)
                }
            };
            count_outputs.push(name);
        }
        for t in &cs.tags {
            if ctx.tags.contains_key(t) {
                ctx.errors.push(format!("duplicate tag {t}"));
            }
            ctx.tags.insert(t.clone(), TagDef::Count { fold_vid: vid });
        }
    }
    ANode {
        vid,
        edge_name: e.name.clone(),
        from_type: from_type.to_string(),
        pre_type,
        ty,
        coerced: e.coerce.is_some(),
        params,
        optional: e.optional,
        recurse: e.recurse,
        fold: e.fold,
        count: e.count.clone(),
        count_outputs,
        props,
        prop_outputs,
        children,
        path,
        in_optional,
        source_in_optional: parent_in_optional,
    }
}

impl ANode {
    pub fn walk<'a>(&'a self, f: &mut dyn FnMut(&'a ANode)) {
        f(self);
        for c in &self.children {
            c.walk(f);
        }
    }
    /// all output names declared in this vertex's subtree (following folds too)
    pub fn all_output_names(&self) -> Vec<String> {
        let mut v = vec![];
        self.walk(&mut |n| {
            v.extend(n.prop_outputs.iter().map(|o| o.name.clone()));
            v.extend(n.count_outputs.iter().cloned());
        });
        v
    }
}

// ---------------------------------------------------------------------------------------------
// feature summary (labels for evidence)

#[derive(Clone, Debug, Default)]
pub struct Features {
    pub filters: usize,
    pub tag_filters: usize,
    pub optional: usize,
    pub fold: usize,
    pub nested_fold: usize,
    pub count_filter: usize,
    pub count_output: usize,
    pub count_tag: usize,
    pub recurse: usize,
    pub coercion: usize,
    pub param_edge: usize,
    pub fold_import: usize,
    pub vertices: usize,
}

impl Features {
    pub fn kinds(&self) -> usize {
        [
            self.filters > 0,
            self.tag_filters > 0,
            self.optional > 0,
            self.fold > 0,
            self.count_filter + self.count_output + self.count_tag > 0,
            self.recurse > 0,
            self.coercion > 0,
            self.param_edge > 0,
        ]
        .iter()
        .filter(|x| **x)
        .count()
    }
    pub fn labels(&self) -> Vec<&'static str> {
        let mut l = vec![];
        if self.filters > 0 {
            l.push("filter");
        }
        if self.tag_filters > 0 {
            l.push("tag_filter");
        }
        if self.optional > 0 {
            l.push("optional");
        }
        if self.fold > 0 {
            l.push("fold");
        }
        if self.nested_fold > 0 {
            l.push("nested_fold");
        }
        if self.count_filter > 0 {
            l.push("count_filter");
        }
        if self.count_output > 0 {
            l.push("count_output");
        }
        if self.count_tag > 0 {
            l.push("count_tag");
        }
        if self.recurse > 0 {
            l.push("recurse");
        }
        if self.coercion > 0 {
            l.push("coercion");
        }
        if self.param_edge > 0 {
            l.push("param_edge");
        }
        if self.fold_import > 0 {
            l.push("tag_imported_into_fold");
        }
        l
    }
}

pub fn features(a: &Annotated) -> Features {
    let mut f = Features::default();
    fn go(n: &ANode, a: &Annotated, f: &mut Features, fold_depth: usize) {
        f.vertices += 1;
        if n.coerced {
            f.coercion += 1;
        }
        if n.optional {
            f.optional += 1;
        }
        if n.recurse.is_some() {
            f.recurse += 1;
        }
        if !n.params.is_empty() {
            f.param_edge += 1;
        }
        let fd = if n.fold {
            f.fold += 1;
            if fold_depth >= 1 {
                f.nested_fold += 1;
            }
            fold_depth + 1
        } else {
            fold_depth
        };
        if let Some(cs) = &n.count {
            f.count_filter += cs.filters.len();
            f.count_output += cs.outputs.len();
            f.count_tag += cs.tags.len();
            for fl in &cs.filters {
                if matches!(fl.arg, Some(Arg::Tag(_))) {
                    f.tag_filters += 1;
                }
            }
        }
        for p in &n.props {
            f.filters += p.filters.len();
            for fl in &p.filters {
                if let Some(Arg::Tag(t)) = &fl.arg {
                    f.tag_filters += 1;
                    if let Some(def) = a.tags.get(t) {
                        // imported when the definition lives in a different (enclosing) component
                        let def_vid = def.def_vid();
                        if !n.path.is_empty() {
                            let comp_root = *n.path.last().unwrap();
                            if def_vid < comp_root {
                                f.fold_import += 1;
                            }
                        }
                    }
                }
            }
        }
        for c in &n.children {
            go(c, a, f, fd);
        }
    }
    go(&a.root, a, &mut f, 0);
    f
}

// ---------------------------------------------------------------------------------------------
// generator

#[derive(Clone, Debug)]
pub struct QueryGenConfig {
    pub max_vertices: usize,
    pub max_depth: usize,
    pub max_fold_nesting: usize,
    pub max_recurse_depth: u32,
    /// exclusions for listed known findings (each is counted by the caller)
    pub allow_list_ordering: bool,
    pub allow_dup_import: bool,
    pub allow_count_filter_under_optional: bool,
    /// bias towards folds with count filters (C22)
    pub fold_bias: bool,
    /// allow @recurse whose implicit coercion targets an interface unrelated to the edge target
    /// (listed finding KF-C21-recursion-coercion-to-unrelated-interface)
    pub allow_sideways_recursion: bool,
    /// C09 "loose" mode: sometimes use any operator on any property and any tag as operand, whatever the types; the
    /// frontend decides what is accepted (the harness's own annotator is not consulted for such queries)
    pub loose_types: bool,
    /// bias towards regex / not_regex filters on String properties with tag operands (the engine compiles tagged regexes
    /// at run time, per value: the one place where a process-wide cache would be tempting; used by C24)
    pub regex_bias: bool,
    /// more tags (property and fold-count tags), more filters per property and more tag operands: the hint and
    /// required-property machinery (C04, C05) lives on tag filters, several of them on one property included
    pub tag_bias: bool,
    /// sometimes generate a fold nothing observes (no outputs inside, no count output or tag): only such folds are eligible
    /// for the engine's early termination
    pub quiet_folds: bool,
}

impl Default for QueryGenConfig {
    fn default() -> Self {
        Self {
            max_vertices: 10,
            max_depth: 4,
            max_fold_nesting: 3,
            max_recurse_depth: 3,
            allow_list_ordering: false,
            allow_dup_import: true,
            allow_count_filter_under_optional: true,
            fold_bias: false,
            allow_sideways_recursion: false,
            loose_types: false,
            regex_bias: false,
            tag_bias: false,
            quiet_folds: false,
        }
    }
}

#[derive(Clone, Debug)]
struct GTag {
    name: String,
    ty: Ty,
    def_vid: usize,
    path: Vec<usize>,
    is_count: bool,
}

struct GenCtx<'s> {
    schema: &'s SchemaDoc,
    cfg: &'s QueryGenConfig,
    next_vid: usize,
    tags: Vec<GTag>,
    used_tags: BTreeSet<String>,
    imports: BTreeSet<(String, usize)>,
    out_names: BTreeSet<String>,
    tag_names: BTreeSet<String>,
    vars: Vec<(String, Ty)>,
    counter: usize,
}

impl GenCtx<'_> {
    fn fresh(&mut self, prefix: &str) -> String {
        self.counter += 1;
        format!("{prefix}{}", self.counter)
    }
}

pub fn gen_query(c: &mut Choices<'_>, schema: &SchemaDoc, cfg: &QueryGenConfig) -> Query {
    let mut ctx = GenCtx {
        schema,
        cfg,
        next_vid: 1,
        tags: vec![],
        used_tags: BTreeSet::new(),
        imports: BTreeSet::new(),
        out_names: BTreeSet::new(),
        tag_names: BTreeSet::new(),
        vars: vec![],
        counter: 0,
    };
    let entries = schema.edges(&schema.root);
    let entry = entries[c.below(entries.len())].clone();
    let vid = ctx.next_vid;
    ctx.next_vid += 1;
    let args = gen_edge_args(c, &entry);
    let coerce = gen_coercion(c, schema, &entry.ty.base, 70);
    let ty = coerce.clone().unwrap_or_else(|| entry.ty.base.clone());
    let path = vec![vid];
    let body = gen_body(&mut ctx, c, &ty, vid, &path, &[], 1, 0, false);
    let mut root = EdgeSel {
        name: entry.name.clone(),
        alias: None,
        args,
        optional: false,
        recurse: None,
        fold: false,
        count: None,
        coerce,
        body,
    };
    // every tag must be used
    let used = ctx.used_tags.clone();
    strip_unused_tags(&mut root, &used);
    // at least one output
    if ctx.out_names.is_empty() {
        root.body.insert(
            0,
            Sel::Prop(PropSel {
                name: "__typename".into(),
                alias: None,
                outputs: vec![Some("o_fallback".into())],
                filters: vec![],
                tags: vec![],
            }),
        );
    }
    Query { root }
}

fn strip_unused_tags(e: &mut EdgeSel, used: &BTreeSet<String>) {
    if let Some(cs) = e.count.as_mut() {
        cs.tags.retain(|t| used.contains(t));
    }
    for s in e.body.iter_mut() {
        match s {
            Sel::Prop(p) => {
                let alias = p.alias.clone();
                let name = p.name.clone();
                p.tags.retain(|t| {
                    let n = match t {
                        Some(n) => n.clone(),
                        None => alias.clone().unwrap_or_else(|| name.clone()),
                    };
                    used.contains(&n)
                });
            }
            Sel::Edge(child) => strip_unused_tags(child, used),
        }
    }
}

fn gen_edge_args(c: &mut Choices<'_>, fdef: &crate::schema_ast::FieldDef) -> Vec<(String, Value)> {
    let mut args = vec![];
    for p in &fdef.params {
        let required = p.default.is_none() && !p.ty.nullable();
        if required || c.chance(130) {
            let v = if p.name == "take" {
                if p.ty.nullable() && c.chance(30) {
                    Value::Null
                } else {
                    Value::int(c.below(5) as i128 - 1)
                }
            } else {
                gen_value_of_type(c, &p.ty, 0)
            };
            args.push((p.name.clone(), v));
        }
    }
    args
}

fn gen_coercion(c: &mut Choices<'_>, schema: &SchemaDoc, pre: &str, p: u32) -> Option<String> {
    let is_iface = schema.type_def(pre).map(|t| t.is_interface).unwrap_or(false);
    if !is_iface {
        return None;
    }
    let subs = schema.strict_subtypes(pre);
    if subs.is_empty() || !c.chance(p) {
        return None;
    }
    Some(subs[c.below(subs.len())].clone())
}

/// Can `e` (declared on static type `s`) be recursed from a vertex of static type `s`?
pub fn recursion_legal(schema: &SchemaDoc, s: &str, edge: &str) -> bool {
    recursion_kind(schema, s, edge).is_some()
}

#[derive(Clone, Debug, PartialEq, Eq)]
pub enum RecursionKind {
    /// source type equals the edge target, or the target itself has the edge
    Plain,
    /// implicit coercion to `x` (a subtype of the edge target) after the first hop
    CoerceTo(String),
    /// implicit coercion to `x`, which is *not* a subtype of the edge target
    SidewaysCoerceTo(String),
}

pub fn recursion_kind(schema: &SchemaDoc, s: &str, edge: &str) -> Option<RecursionKind> {
    let fd = schema.field(s, edge)?;
    let d = fd.ty.base.as_str();
    if d == s {
        return Some(RecursionKind::Plain);
    }
    if !schema.is_subtype(d, s) {
        return None;
    }
    match schema.field(d, edge) {
        Some(de) => {
            if de.ty.base == d {
                Some(RecursionKind::Plain)
            } else {
                None
            }
        }
        None => {
            let origins = schema.field_origins(s, edge);
            if origins.len() != 1 {
                return None;
            }
            let x = origins.iter().next().unwrap();
            let ok = schema.field(x, edge).map(|xe| xe.ty.base == d).unwrap_or(false);
            if !ok {
                return None;
            }
            if schema.is_subtype(d, x) {
                Some(RecursionKind::CoerceTo(x.clone()))
            } else {
                Some(RecursionKind::SidewaysCoerceTo(x.clone()))
            }
        }
    }
}

#[allow(dead_code)]
fn recursion_legal_old(schema: &SchemaDoc, s: &str, edge: &str) -> bool {
    let Some(fd) = schema.field(s, edge) else { return false };
    let d = fd.ty.base.as_str();
    if d == s {
        return true;
    }
    if !schema.is_subtype(d, s) {
        return false; // unrelated, or destination is a strict subtype of the source
    }
    // s is a strict subtype of d
    match schema.field(d, edge) {
        Some(de) => de.ty.base == d,
        None => {
            let origins = schema.field_origins(s, edge);
            if origins.len() != 1 {
                return false;
            }
            let x = origins.iter().next().unwrap();
            schema.field(x, edge).map(|xe| xe.ty.base == d).unwrap_or(false)
        }
    }
}

fn ops_for(pt: &Ty, cfg: &QueryGenConfig) -> Vec<Op> {
    let mut ops = vec![Op::Eq, Op::Ne, Op::OneOf, Op::NotOneOf];
    if pt.nullable() {
        ops.push(Op::IsNull);
        ops.push(Op::IsNotNull);
    }
    let orderable = matches!(pt.base.as_str(), "Int" | "Float" | "String");
    if orderable && (!pt.is_list() || cfg.allow_list_ordering) {
        ops.extend([Op::Lt, Op::Le, Op::Gt, Op::Ge]);
    }
    if pt.is_list() {
        ops.push(Op::Contains);
        ops.push(Op::NotContains);
    }
    if !pt.is_list() && pt.base == "String" {
        ops.extend([
            Op::HasPrefix,
            Op::NotHasPrefix,
            Op::HasSuffix,
            Op::NotHasSuffix,
            Op::HasSubstring,
            Op::NotHasSubstring,
            Op::Regex,
            Op::NotRegex,
        ]);
    }
    ops
}

pub fn tag_compatible(op: Op, pt: &Ty, tt: &Ty, cfg: &QueryGenConfig) -> bool {
    match op {
        Op::Eq | Op::Ne => pt.same_shape(tt),
        Op::Lt | Op::Le | Op::Gt | Op::Ge => {
            pt.same_shape(tt)
                && matches!(pt.base.as_str(), "Int" | "Float" | "String")
                && (!pt.is_list() || cfg.allow_list_ordering)
        }
        Op::Contains | Op::NotContains => pt.elem().map(|e| e.same_shape(tt)).unwrap_or(false),
        Op::OneOf | Op::NotOneOf => tt.elem().map(|e| e.same_shape(pt)).unwrap_or(false),
        Op::IsNull | Op::IsNotNull => false,
        _ => !pt.is_list() && pt.base == "String" && !tt.is_list() && tt.base == "String",
    }
}

/// `use_path`: component path of the use site; `use_vid`: vertex whose filter uses the tag.
fn gen_filter(
    ctx: &mut GenCtx<'_>,
    c: &mut Choices<'_>,
    pt: &Ty,
    ops: &[Op],
    use_vid: usize,
    use_path: &[usize],
) -> Filter {
    let op = ops[c.below(ops.len())];
    if op.is_unary() {
        return Filter { op, arg: None };
    }
    // tag argument?
    let tag_chance = if ctx.cfg.regex_bias && matches!(op, Op::Regex | Op::NotRegex) {
        210
    } else if ctx.cfg.tag_bias {
        190
    } else {
        110
    };
    if c.chance(tag_chance) {
        let loose_tag = ctx.cfg.loose_types && c.chance(90);
        let cands: Vec<GTag> = ctx
            .tags
            .iter()
            .filter(|t| {
                t.path.len() <= use_path.len()
                    && t.path[..] == use_path[..t.path.len()]
                    && t.def_vid <= use_vid
                    && (loose_tag || tag_compatible(op, pt, &t.ty, ctx.cfg))
            })
            .filter(|t| {
                if ctx.cfg.allow_dup_import || t.path.len() == use_path.len() {
                    true
                } else {
                    let importing_fold = use_path[t.path.len()];
                    !ctx.imports.contains(&(t.name.clone(), importing_fold))
                }
            })
            .cloned()
            .collect();
        if !cands.is_empty() {
            // tag-biased worlds prefer fold-count tags when one is in scope (they are rare otherwise)
            let mut cands = cands;
            if ctx.cfg.tag_bias && cands.iter().any(|t| t.is_count) && c.chance(170) {
                cands.retain(|t| t.is_count);
            }
            let t = cands[c.below(cands.len())].clone();
            ctx.used_tags.insert(t.name.clone());
            if t.path.len() < use_path.len() {
                ctx.imports.insert((t.name.clone(), use_path[t.path.len()]));
            }
            return Filter { op, arg: Some(Arg::Tag(t.name)) };
        }
    }
    let vt = infer_var_type(op, pt).unwrap_or_else(|| pt.clone());
    // reuse an existing variable of the same shape sometimes
    if c.chance(30) {
        let same: Vec<usize> =
            ctx.vars.iter().enumerate().filter(|(_, (_, t))| t.same_shape(&vt)).map(|(i, _)| i).collect();
        if !same.is_empty() {
            let i = same[c.below(same.len())];
            let merged = ctx.vars[i].1.intersect(&vt).unwrap();
            ctx.vars[i].1 = merged;
            return Filter { op, arg: Some(Arg::Var(ctx.vars[i].0.clone())) };
        }
    }
    let name = ctx.fresh("v");
    ctx.vars.push((name.clone(), vt));
    Filter { op, arg: Some(Arg::Var(name)) }
}

#[allow(clippy::too_many_arguments)]
fn gen_body(
    ctx: &mut GenCtx<'_>,
    c: &mut Choices<'_>,
    ty: &str,
    vid: usize,
    path: &[usize],
    prefixes: &[String],
    depth: usize,
    fold_nesting: usize,
    in_optional: bool,
) -> Vec<Sel> {
    let schema = ctx.schema;
    let props = schema.properties(ty);
    let edges = schema.edges(ty);
    let n_sel = 1 + c.below(4);
    let mut body: Vec<Sel> = vec![];
    for i in 0..n_sel {
        let can_edge =
            !edges.is_empty() && depth < ctx.cfg.max_depth && ctx.next_vid <= ctx.cfg.max_vertices;
        let want_edge = can_edge && c.chance(if ctx.cfg.fold_bias { 140 } else { 115 });
        if want_edge {
            let e = edges[c.below(edges.len())].clone();
            let child = gen_edge(ctx, c, ty, &e, path, prefixes, depth, fold_nesting, in_optional);
            body.push(Sel::Edge(child));
        } else {
            // property selection
            let use_typename = props.is_empty() || c.chance(20);
            let (pname, pt) = if use_typename {
                ("__typename".to_string(), Ty::named("String", false))
            } else {
                let p = props[c.below(props.len())];
                (p.name.clone(), p.ty.clone())
            };
            let mut sel = PropSel { name: pname.clone(), ..Default::default() };
            if c.chance(50) {
                sel.alias = Some(ctx.fresh("a"));
            }
            let regex_bias = ctx.cfg.regex_bias && !pt.is_list() && pt.base == "String";
            // tag (defined before this property's own filters are generated: same-vertex use is legal)
            if c.chance(if regex_bias { 170 } else if ctx.cfg.tag_bias { 150 } else { 80 }) {
                let explicit = c.chance(180);
                let name = if explicit {
                    ctx.fresh("t")
                } else {
                    sel.alias.clone().unwrap_or_else(|| pname.clone())
                };
                if !ctx.tag_names.contains(&name) {
                    ctx.tag_names.insert(name.clone());
                    sel.tags.push(if explicit { Some(name.clone()) } else { None });
                    ctx.tags.push(GTag { name, ty: pt.clone(), def_vid: vid, path: path.to_vec(), is_count: false });
                }
            }
            // outputs
            let n_out = if c.chance(if i == 0 { 200 } else { 150 }) { 1 + c.chance(16) as usize } else { 0 };
            for _ in 0..n_out {
                let explicit = c.chance(170);
                let name = if explicit {
                    ctx.fresh("o")
                } else {
                    let local = sel.alias.clone().unwrap_or_else(|| pname.clone());
                    format!("{}{}", prefixes.concat(), local)
                };
                if !ctx.out_names.contains(&name) {
                    ctx.out_names.insert(name.clone());
                    sel.outputs.push(if explicit { Some(name) } else { None });
                }
            }
            // filters
            let mut ops = ops_for(&pt, ctx.cfg);
            if ctx.cfg.loose_types && c.chance(90) {
                ops = crate::values::ALL_OPS.to_vec();
            }
            if regex_bias && c.chance(170) {
                ops = vec![Op::Regex, Op::NotRegex];
            }
            let count_tag_in_scope = ctx.cfg.tag_bias
                && !pt.is_list()
                && pt.base == "Int"
                && ctx.tags.iter().any(|t| t.is_count && t.path.len() <= path.len() && t.path[..] == path[..t.path.len()] && t.def_vid <= vid);
            let n_f = if c.chance(if regex_bias { 200 } else if count_tag_in_scope { 235 } else if ctx.cfg.tag_bias { 170 } else { 110 }) {
                if ctx.cfg.tag_bias { 1 + c.below(3) } else { 1 + c.chance(50) as usize }
            } else {
                0
            };
            for _ in 0..n_f {
                let f = gen_filter(ctx, c, &pt, &ops, vid, path);
                sel.filters.push(f);
            }
            body.push(Sel::Prop(sel));
        }
    }
    body
}

#[allow(clippy::too_many_arguments)]
fn gen_edge(
    ctx: &mut GenCtx<'_>,
    c: &mut Choices<'_>,
    from_ty: &str,
    e: &crate::schema_ast::FieldDef,
    path: &[usize],
    prefixes: &[String],
    depth: usize,
    fold_nesting: usize,
    in_optional: bool,
) -> EdgeSel {
    let schema = ctx.schema;
    let vid = ctx.next_vid;
    ctx.next_vid += 1;
    let mut sel = EdgeSel { name: e.name.clone(), ..Default::default() };
    sel.args = gen_edge_args(c, e);
    if c.chance(60) {
        sel.alias = Some(format!("{}_", ctx.fresh("x")));
    }
    // kind
    let can_fold = fold_nesting < ctx.cfg.max_fold_nesting;
    let can_recurse = match recursion_kind(schema, from_ty, &e.name) {
        None => false,
        Some(RecursionKind::SidewaysCoerceTo(_)) => ctx.cfg.allow_sideways_recursion,
        Some(_) => true,
    };
    let k = c.below(100);
    let (fold_cut, opt_cut, rec_cut) = if ctx.cfg.fold_bias {
        (55, 70, 80)
    } else if ctx.cfg.tag_bias && in_optional {
        // a fold (with a tagged count) inside an optional scope is the rarest link of the chain "count tag defined inside a
        // missing @optional, consumed by a later filter"
        (62, 74, 84)
    } else if ctx.cfg.tag_bias {
        (38, 62, 76)
    } else {
        (28, 50, 68)
    };
    if k < fold_cut && can_fold {
        sel.fold = true;
    } else if k < opt_cut {
        sel.optional = true;
    } else if k < rec_cut && can_recurse {
        sel.recurse = Some(1 + c.below(ctx.cfg.max_recurse_depth as usize) as u32);
        if c.chance(20) {
            sel.optional = true;
        }
    }
    sel.coerce = gen_coercion(c, schema, &e.ty.base, 80);
    let ty = sel.coerce.clone().unwrap_or_else(|| e.ty.base.clone());
    let mut my_prefixes = prefixes.to_vec();
    if let Some(a) = &sel.alias {
        my_prefixes.push(a.clone());
    }
    if sel.fold {
        let mut inner_path = path.to_vec();
        inner_path.push(vid);
        // count group decided first (filters use only tags registered before the fold), tags registered after
        let want_count =
            c.chance(if ctx.cfg.fold_bias { 210 } else if ctx.cfg.tag_bias { if in_optional { 235 } else { 190 } } else { 140 });
        let quiet = ctx.cfg.quiet_folds && c.chance(80);
        let mut cs = CountSel::default();
        if want_count {
            let allow_filters = ctx.cfg.allow_count_filter_under_optional || !in_optional;
            // one to three filters on the same count (pairs such as `>= $a` with `!= $b` interact in the early-exit code)
            let n_f = if allow_filters && c.chance(if ctx.cfg.fold_bias { 200 } else { 140 }) {
                let two = c.chance(if ctx.cfg.fold_bias { 110 } else { 60 });
                1 + two as usize + (two && c.chance(70)) as usize
            } else {
                0
            };
            let int_ty = Ty::named("Int", false);
            let mut ops = vec![Op::Eq, Op::Ne, Op::Lt, Op::Le, Op::Gt, Op::Ge, Op::OneOf, Op::NotOneOf];
            if ctx.cfg.loose_types && c.chance(60) {
                ops = crate::values::ALL_OPS.to_vec();
            }
            for _ in 0..n_f {
                let f = gen_filter(ctx, c, &int_ty, &ops, vid, path);
                cs.filters.push(f);
            }
            if !quiet && c.chance(130) {
                let explicit = c.chance(170);
                let name = if explicit {
                    ctx.fresh("o")
                } else {
                    let local = if sel.alias.is_some() { String::new() } else { sel.name.clone() };
                    format!("{}{}count", my_prefixes.concat(), local)
                };
                if !ctx.out_names.contains(&name) {
                    ctx.out_names.insert(name.clone());
                    cs.outputs.push(if explicit { Some(name) } else { None });
                }
            }
        }
        sel.body = gen_body(ctx, c, &ty, vid, &inner_path, &my_prefixes, depth + 1, fold_nesting + 1, false);
        if quiet {
            strip_outputs_in(&mut sel.body);
        }
        if want_count {
            if !quiet && c.chance(if ctx.cfg.fold_bias { 120 } else if ctx.cfg.tag_bias { if in_optional { 225 } else { 140 } } else { 70 }) {
                let name = ctx.fresh("t");
                ctx.tag_names.insert(name.clone());
                cs.tags.push(name.clone());
                ctx.tags.push(GTag {
                    name,
                    ty: Ty::named("Int", false),
                    def_vid: vid,
                    path: path.to_vec(),
                    is_count: true,
                });
            }
            sel.count = Some(cs);
        }
    } else {
        let child_opt = in_optional || sel.optional;
        sel.body = gen_body(ctx, c, &ty, vid, path, &my_prefixes, depth + 1, fold_nesting, child_opt);
    }
    sel
}

/// removes every output below (used for folds that nothing observes); output names stay reserved, which is harmless
fn strip_outputs_in(body: &mut [Sel]) {
    for s in body.iter_mut() {
        match s {
            Sel::Prop(p) => p.outputs.clear(),
            Sel::Edge(e) => {
                if let Some(cs) = e.count.as_mut() {
                    cs.outputs.clear();
                }
                strip_outputs_in(&mut e.body);
            }
        }
    }
}

// ---------------------------------------------------------------------------------------------
// argument generation

const REGEX_POOL: [&str; 10] = ["a", "^a", "b$", "a.c", "^$", "a*b", "(a|b)+", "[a-b]+$", "^a?b", "."];
pub const INVALID_REGEX_POOL: [&str; 6] = ["(", "[", "a)", "*a", "+", "(?"];

#[derive(Clone, Debug, Default)]
pub struct ArgGenConfig {
    pub allow_invalid_regex: bool,
}

/// Values fitting the inferred variable types (so argument validation must accept them).
pub fn gen_args(c: &mut Choices<'_>, a: &Annotated, cfg: &ArgGenConfig) -> BTreeMap<String, Value> {
    let mut out = BTreeMap::new();
    for (name, ty) in &a.var_types {
        let uses: Vec<&(String, Ty, Op, bool)> = a.var_uses.iter().filter(|(n, ..)| n == name).collect();
        let is_regex = uses.iter().any(|(_, _, op, _)| matches!(op, Op::Regex | Op::NotRegex));
        let is_count = uses.iter().any(|(_, _, _, cnt)| *cnt);
        let v = if is_regex {
            if cfg.allow_invalid_regex && c.chance(40) {
                Value::str(INVALID_REGEX_POOL[c.below(INVALID_REGEX_POOL.len())])
            } else {
                Value::str(REGEX_POOL[c.below(REGEX_POOL.len())])
            }
        } else if is_count {
            gen_count_operand(c, ty)
        } else {
            gen_value_of_type(c, ty, 0)
        };
        out.insert(name.clone(), v);
    }
    out
}

fn gen_count_operand(c: &mut Choices<'_>, ty: &Ty) -> Value {
    fn scalar(c: &mut Choices<'_>) -> Value {
        if c.chance(16) {
            let ext = [i64::MIN as i128, u64::MAX as i128, i64::MAX as i128];
            Value::Int { v: *c.pick(&ext), unsigned: true }
        } else {
            Value::Int { v: c.below(7) as i128 - 2, unsigned: c.chance(100) }
        }
    }
    if ty.is_list() {
        let n = c.below(4);
        Value::List((0..n).map(|_| scalar(c)).collect())
    } else {
        scalar(c)
    }
}
