//! Harness-side schema AST, SDL renderer and a valid-by-construction generator.

use std::collections::{BTreeMap, BTreeSet};

use crate::choice::Choices;
use crate::values::{Ty, Value};

pub const DIRECTIVES: &str = "directive @filter(op: String!, value: [String!]) repeatable on FIELD | INLINE_FRAGMENT
directive @tag(name: String) repeatable on FIELD
directive @output(name: String) repeatable on FIELD
directive @optional on FIELD
directive @recurse(depth: Int!) on FIELD
directive @fold on FIELD
directive @transform(op: String!) repeatable on FIELD
";

pub const SCALARS: [&str; 4] = ["Int", "Float", "String", "Boolean"];

#[derive(Clone, Debug, PartialEq)]
pub struct ParamDef {
    pub name: String,
    pub ty: Ty,
    pub default: Option<Value>,
}

#[derive(Clone, Debug, PartialEq)]
pub struct FieldDef {
    pub name: String,
    pub ty: Ty,
    pub params: Vec<ParamDef>,
    pub doc: Option<String>,
}

#[derive(Clone, Debug, PartialEq)]
pub struct TypeDef {
    pub name: String,
    pub is_interface: bool,
    pub implements: Vec<String>,
    pub fields: Vec<FieldDef>,
    pub doc: Option<String>,
}

/// How an edge's parameters select among the edge's base neighbours (dataset semantics).
#[derive(Clone, Debug, PartialEq)]
pub enum ParamSem {
    Ignore,
    /// keep neighbours whose property `prop` equals the parameter (null parameter: keep all)
    FilterEq { param: String, prop: String },
    /// keep the first n neighbours (null parameter: keep all; negative: none)
    Take { param: String },
    /// keep neighbours whose property `prop` is >= the parameter (null parameter: keep all)
    MinValue { param: String, prop: String },
    /// keep neighbours whose property `prop` is one of the listed values (null parameter: keep all)
    OneOfList { param: String, prop: String },
}

#[derive(Clone, Debug, PartialEq)]
pub struct SchemaDoc {
    pub root: String,
    pub types: Vec<TypeDef>,
    /// custom scalar definitions (`scalar X`), by name (duplicates possible in mutated documents)
    pub scalars: Vec<String>,
    /// extra directive definitions (`directive @x on FIELD`), by name
    pub extra_directives: Vec<String>,
    pub include_directives: bool,
    /// rendered `schema { query: X }` blocks; normally exactly one with `root`
    pub schema_blocks: Vec<String>,
    /// edge name -> parameter semantics (edge names are globally unique in generated schemas)
    pub sem: BTreeMap<String, ParamSem>,
}

impl SchemaDoc {
    pub fn render(&self) -> String {
        let mut out = String::new();
        for b in &self.schema_blocks {
            out.push_str(&format!("schema {{\n  query: {b}\n}}\n"));
        }
        if self.include_directives {
            out.push_str(DIRECTIVES);
        }
        for d in &self.extra_directives {
            out.push_str(&format!("directive @{d} on FIELD\n"));
        }
        for sc in &self.scalars {
            out.push_str(&format!("scalar {sc}\n"));
        }
        for t in &self.types {
            if let Some(d) = &t.doc {
                out.push_str(&format!("\"\"\"\n{d}\n\"\"\"\n"));
            }
            out.push_str(if t.is_interface { "interface " } else { "type " });
            out.push_str(&t.name);
            if !t.implements.is_empty() {
                out.push_str(" implements ");
                out.push_str(&t.implements.join(" & "));
            }
            out.push_str(" {\n");
            for f in &t.fields {
                if let Some(d) = &f.doc {
                    out.push_str(&format!("  \"\"\"\n  {d}\n  \"\"\"\n"));
                }
                out.push_str("  ");
                out.push_str(&f.name);
                if !f.params.is_empty() {
                    out.push('(');
                    let ps: Vec<String> = f
                        .params
                        .iter()
                        .map(|p| match &p.default {
                            Some(d) => format!("{}: {} = {}", p.name, p.ty.render(), d.to_graphql()),
                            None => format!("{}: {}", p.name, p.ty.render()),
                        })
                        .collect();
                    out.push_str(&ps.join(", "));
                    out.push(')');
                }
                out.push_str(": ");
                out.push_str(&f.ty.render());
                out.push('\n');
            }
            out.push_str("}\n");
        }
        out
    }

    pub fn type_def(&self, name: &str) -> Option<&TypeDef> {
        self.types.iter().find(|t| t.name == name)
    }

    pub fn is_vertex_type(&self, name: &str) -> bool {
        self.types.iter().any(|t| t.name == name)
    }

    pub fn field(&self, ty: &str, field: &str) -> Option<&FieldDef> {
        self.type_def(ty)?.fields.iter().find(|f| f.name == field)
    }

    pub fn is_edge(&self, f: &FieldDef) -> bool {
        self.is_vertex_type(&f.ty.base)
    }

    /// reflexive subtype test over the (transitively closed) implements lists
    pub fn is_subtype(&self, sup: &str, sub: &str) -> bool {
        sup == sub
            || self.type_def(sub).map(|t| t.implements.iter().any(|i| i == sup)).unwrap_or(false)
    }

    pub fn strict_subtypes(&self, sup: &str) -> Vec<String> {
        self.types
            .iter()
            .filter(|t| t.name != sup && t.implements.iter().any(|i| i == sup))
            .map(|t| t.name.clone())
            .collect()
    }

    pub fn concrete_types(&self) -> Vec<&TypeDef> {
        self.types.iter().filter(|t| !t.is_interface && t.name != self.root).collect()
    }

    pub fn concrete_subtypes(&self, sup: &str) -> Vec<String> {
        self.concrete_types()
            .into_iter()
            .filter(|t| self.is_subtype(sup, &t.name))
            .map(|t| t.name.clone())
            .collect()
    }

    pub fn properties<'a>(&'a self, ty: &str) -> Vec<&'a FieldDef> {
        self.type_def(ty)
            .map(|t| t.fields.iter().filter(|f| !self.is_edge(f)).collect())
            .unwrap_or_default()
    }

    pub fn edges<'a>(&'a self, ty: &str) -> Vec<&'a FieldDef> {
        self.type_def(ty)
            .map(|t| t.fields.iter().filter(|f| self.is_edge(f)).collect())
            .unwrap_or_default()
    }

    /// The topmost types that introduce field `field` among the ancestors-or-self of `ty`.
    pub fn field_origins(&self, ty: &str, field: &str) -> BTreeSet<String> {
        let mut out = BTreeSet::new();
        let Some(t) = self.type_def(ty) else { return out };
        let mut candidates: Vec<&str> = vec![ty];
        candidates.extend(t.implements.iter().map(|s| s.as_str()));
        for c in candidates {
            let Some(cd) = self.type_def(c) else { continue };
            if !cd.fields.iter().any(|f| f.name == field) {
                continue;
            }
            // topmost: no ancestor of c defines the field
            let has_parent_def = cd.implements.iter().any(|p| self.field(p, field).is_some());
            if !has_parent_def {
                out.insert(c.to_string());
            }
        }
        out
    }
}

/// Edge "shape": how the target type is wrapped.
pub fn edge_shapes(target: &str) -> Vec<Ty> {
    vec![
        Ty { base: target.into(), nulls: vec![true, false] },  // [T!]
        Ty { base: target.into(), nulls: vec![false, false] }, // [T!]!
        Ty { base: target.into(), nulls: vec![true] },         // T
        Ty { base: target.into(), nulls: vec![false] },        // T!
        Ty { base: target.into(), nulls: vec![true, true] },   // [T]
        Ty { base: target.into(), nulls: vec![false, true] },  // [T]!
    ]
}

pub fn edge_is_to_many(ty: &Ty) -> bool {
    ty.is_list()
}

#[derive(Clone, Debug)]
pub struct SchemaGenConfig {
    pub max_ifaces: usize,
    pub max_objects: usize,
    pub hostile_names: bool,
    pub docs: bool,
    pub max_list_depth: usize,
}

impl Default for SchemaGenConfig {
    fn default() -> Self {
        Self { max_ifaces: 3, max_objects: 3, hostile_names: false, docs: false, max_list_depth: 2 }
    }
}

fn gen_prop_type(c: &mut Choices<'_>, max_depth: usize) -> Ty {
    let base = *c.pick(&SCALARS);
    let depth = if c.chance(80) { 1 + if max_depth > 1 && c.chance(50) { 1 } else { 0 } } else { 0 };
    let depth = depth.min(max_depth);
    let mut nulls = vec![];
    for _ in 0..=depth {
        nulls.push(c.chance(150));
    }
    Ty { base: base.into(), nulls }
}

/// legal narrowing of a property/edge type in an implementer: some nullable layers become non-null
fn narrow_nulls(c: &mut Choices<'_>, ty: &Ty) -> Ty {
    let mut t = ty.clone();
    for n in t.nulls.iter_mut() {
        if *n && c.chance(40) {
            *n = false;
        }
    }
    t
}

fn gen_default_for(c: &mut Choices<'_>, ty: &Ty) -> Value {
    crate::data::gen_value_of_type(c, ty, 0)
}

/// Generates a schema that the documented rules accept.
pub fn gen_schema(c: &mut Choices<'_>, cfg: &SchemaGenConfig) -> SchemaDoc {
    let n_ifaces = c.below(cfg.max_ifaces + 1);
    let n_objects = 1 + c.below(cfg.max_objects);

    // alphabetical order of the type names is part of the generated space: several engine paths iterate types sorted by
    // name, so "every interface sorts before its implementers" must not be baked into the generator
    let names = NamePool::with_style(cfg.hostile_names, c.below(6));
    let mut types: Vec<TypeDef> = vec![];
    let mut prop_counter = 0usize;
    let mut edge_counter = 0usize;
    let mut sem: BTreeMap<String, ParamSem> = BTreeMap::new();

    // 1. type skeletons with implements (DAG: a type may only implement earlier interfaces)
    for i in 0..n_ifaces {
        let mut implements: BTreeSet<String> = BTreeSet::new();
        for j in 0..i {
            if c.chance(90) {
                implements.insert(types[j].name.clone());
                for x in types[j].implements.clone() {
                    implements.insert(x);
                }
            }
        }
        types.push(TypeDef {
            name: names.type_name(i, true),
            is_interface: true,
            implements: order_implements(&types, implements),
            fields: vec![],
            doc: None,
        });
    }
    for i in 0..n_objects {
        let mut implements: BTreeSet<String> = BTreeSet::new();
        for j in 0..n_ifaces {
            if c.chance(110) {
                implements.insert(types[j].name.clone());
                for x in types[j].implements.clone() {
                    implements.insert(x);
                }
            }
        }
        types.push(TypeDef {
            name: names.type_name(i, false),
            is_interface: false,
            implements: order_implements(&types, implements),
            fields: vec![],
            doc: None,
        });
    }
    // make sure every interface has at least one concrete implementer (so data can exist for it)
    for j in 0..n_ifaces {
        let iname = types[j].name.clone();
        let has = types.iter().any(|t| !t.is_interface && t.implements.contains(&iname));
        if !has {
            let k = n_ifaces + c.below(n_objects);
            let mut set: BTreeSet<String> = types[k].implements.iter().cloned().collect();
            set.insert(iname.clone());
            for x in types[j].implements.clone() {
                set.insert(x);
            }
            let ordered = order_implements(&types, set);
            types[k].implements = ordered;
        }
    }

    let all_type_names: Vec<String> = types.iter().map(|t| t.name.clone()).collect();

    // 2. fields, in definition order so that inherited fields are copied from finished ancestors
    for idx in 0..types.len() {
        let mut fields: Vec<FieldDef> = vec![];
        // inherited fields: every field of every implemented interface (deduplicated by name;
        // names are globally unique per introducing type, so equal names mean the same origin)
        let implemented = types[idx].implements.clone();
        // process nearest ancestors last so that their (possibly narrowed) version wins
        let mut inherited: BTreeMap<String, FieldDef> = BTreeMap::new();
        let mut order: Vec<String> = vec![];
        for iname in &implemented {
            let idef = types.iter().find(|t| &t.name == iname).unwrap();
            for f in &idef.fields {
                match inherited.get(&f.name) {
                    None => {
                        order.push(f.name.clone());
                        inherited.insert(f.name.clone(), f.clone());
                    }
                    Some(existing) => {
                        // keep the narrower of the two (the one that is a subtype of the other)
                        if field_ty_is_subtype(&types, &existing.ty, &f.ty) {
                            let mut nf = f.clone();
                            // parameters: keep the wider ones
                            nf.params = merge_params_wider(&existing.params, &f.params);
                            inherited.insert(f.name.clone(), nf);
                        } else {
                            let mut ex = existing.clone();
                            ex.params = merge_params_wider(&existing.params, &f.params);
                            inherited.insert(f.name.clone(), ex);
                        }
                    }
                }
            }
        }
        for name in order {
            let mut f = inherited.remove(&name).unwrap();
            let is_edge = all_type_names.contains(&f.ty.base);
            if c.chance(60) {
                // legal narrowing
                if is_edge {
                    // narrow the target to a strict subtype sometimes; nullability narrowing otherwise
                    let subs: Vec<String> = types
                        .iter()
                        .filter(|t| t.name != f.ty.base && t.implements.contains(&f.ty.base))
                        .map(|t| t.name.clone())
                        .collect();
                    if !subs.is_empty() && !types[idx].is_interface && c.chance(128) {
                        f.ty.base = c.pick(&subs).clone();
                    } else {
                        f.ty = narrow_nulls(c, &f.ty);
                    }
                } else {
                    f.ty = narrow_nulls(c, &f.ty);
                }
            }
            if is_edge && !f.params.is_empty() && c.chance(50) {
                // legal widening of a parameter type (contravariant): non-null -> nullable
                for p in f.params.iter_mut() {
                    if !p.ty.nulls[0] && c.chance(128) {
                        p.ty.nulls[0] = true;
                    }
                }
            }
            f.doc = None;
            fields.push(f);
        }
        // own properties
        // a type may consist of edges only (then step 3 guarantees it at least one edge)
        let n_props = if fields.iter().any(|f| !all_type_names.contains(&f.ty.base)) || c.chance(30) {
            c.below(3)
        } else {
            1 + c.below(3)
        };
        for _ in 0..n_props {
            let ty = gen_prop_type(c, cfg.max_list_depth);
            fields.push(FieldDef {
                name: names.prop_name(prop_counter),
                ty,
                params: vec![],
                doc: if cfg.docs && c.chance(60) { Some(format!("doc of p{prop_counter}")) } else { None },
            });
            prop_counter += 1;
        }
        types[idx].fields = fields;
    }

    // 3. own edges (after all properties exist, so parameter semantics can reference target properties)
    for idx in 0..types.len() {
        let n_edges = if types[idx].fields.is_empty() { 1 + c.below(3) } else { c.below(4) };
        for _ in 0..n_edges {
            let target_idx = c.below(types.len());
            let target = types[target_idx].name.clone();
            let shapes = edge_shapes(&target);
            // the four documented shapes are much more likely
            let shape = if c.chance(24) { shapes[4 + c.below(2)].clone() } else { shapes[c.below(4)].clone() };
            let ename = names.edge_name(edge_counter);
            edge_counter += 1;
            let mut params = vec![];
            let mut esem = ParamSem::Ignore;
            if c.chance(70) {
                let target_props: Vec<FieldDef> = types[target_idx]
                    .fields
                    .iter()
                    .filter(|f| !all_type_names.contains(&f.ty.base))
                    .cloned()
                    .collect();
                let kind = c.below(4);
                match kind {
                    0 => {
                        // filter_eq on a scalar (non-list) property of the target, if any
                        if let Some(p) = pick_where(c, &target_props, |p| !p.ty.is_list()) {
                            let pty = Ty { base: p.ty.base.clone(), nulls: vec![c.chance(170)] };
                            let default = gen_param_default(c, &pty);
                            params.push(ParamDef { name: "eqv".into(), ty: pty, default });
                            esem = ParamSem::FilterEq { param: "eqv".into(), prop: p.name.clone() };
                        }
                    }
                    1 => {
                        let pty = Ty::named("Int", c.chance(170));
                        let default = gen_param_default(c, &pty);
                        params.push(ParamDef { name: "take".into(), ty: pty, default });
                        esem = ParamSem::Take { param: "take".into() };
                    }
                    2 => {
                        if let Some(p) = pick_where(c, &target_props, |p| {
                            !p.ty.is_list() && matches!(p.ty.base.as_str(), "Int" | "String" | "Float")
                        }) {
                            let pty = Ty { base: p.ty.base.clone(), nulls: vec![c.chance(170)] };
                            let default = gen_param_default(c, &pty);
                            params.push(ParamDef { name: "min".into(), ty: pty, default });
                            esem = ParamSem::MinValue { param: "min".into(), prop: p.name.clone() };
                        }
                    }
                    _ => {
                        if let Some(p) = pick_where(c, &target_props, |p| !p.ty.is_list()) {
                            let pty = Ty {
                                base: p.ty.base.clone(),
                                nulls: vec![c.chance(170), c.chance(128)],
                            };
                            let default = gen_param_default(c, &pty);
                            params.push(ParamDef { name: "among".into(), ty: pty, default });
                            esem = ParamSem::OneOfList { param: "among".into(), prop: p.name.clone() };
                        }
                    }
                }
                // an extra, semantically ignored parameter sometimes
                if c.chance(40) {
                    let pty = gen_prop_type(c, 1);
                    let default = gen_param_default(c, &pty);
                    params.push(ParamDef { name: "extra".into(), ty: pty, default });
                }
            }
            sem.insert(ename.clone(), esem);
            types[idx].fields.push(FieldDef {
                name: ename,
                ty: shape,
                params,
                doc: if cfg.docs && c.chance(60) { Some("an edge".into()) } else { None },
            });
        }
    }
    // edges defined on interfaces in step 3 must also appear in implementers (step 2 ran before).
    // Propagate them now, optionally narrowing.
    for idx in 0..types.len() {
        let implemented = types[idx].implements.clone();
        for iname in &implemented {
            let idef_fields: Vec<FieldDef> =
                types.iter().find(|t| &t.name == iname).unwrap().fields.clone();
            for f in idef_fields {
                if !all_type_names.contains(&f.ty.base) {
                    continue;
                }
                if types[idx].fields.iter().any(|x| x.name == f.name) {
                    continue;
                }
                // only edges *introduced* by that interface are missing here
                let mut nf = f.clone();
                nf.doc = None;
                if c.chance(70) {
                    let subs: Vec<String> = types
                        .iter()
                        .filter(|t| t.name != nf.ty.base && t.implements.contains(&nf.ty.base))
                        .map(|t| t.name.clone())
                        .collect();
                    if !subs.is_empty() && !types[idx].is_interface && c.chance(128) {
                        nf.ty.base = c.pick(&subs).clone();
                    } else {
                        nf.ty = narrow_nulls(c, &nf.ty);
                    }
                }
                types[idx].fields.push(nf);
            }
        }
    }
    // narrowing must be consistent along the interface DAG: if T implements I and J, and J implements I,
    // T's version must be a subtype of J's version which is a subtype of I's. Repair by taking, for every
    // inherited edge, a type that is a subtype of all ancestors' versions (intersection of nulls, most
    // specific base); if bases are unrelated fall back to the most specific ancestor's type.
    repair_inherited_edge_types(&mut types, &all_type_names);

    // 3b. sometimes an object type's own property takes the name of an edge of an unrelated type: whether a field is a
    // property or an edge is a fact about (type, field), not about the field name
    if !cfg.hostile_names && c.chance(50) {
        let edge_names: Vec<(usize, String)> = types
            .iter()
            .enumerate()
            .flat_map(|(i, t)| t.fields.iter().filter(|f| all_type_names.contains(&f.ty.base)).map(move |f| (i, f.name.clone())))
            .collect();
        let objects: Vec<usize> = (0..types.len()).filter(|i| !types[*i].is_interface).collect();
        if !edge_names.is_empty() && !objects.is_empty() {
            let a = objects[c.below(objects.len())];
            let (b, ename) = edge_names[c.below(edge_names.len())].clone();
            let inherited: BTreeSet<String> = types
                .iter()
                .filter(|t| types[a].implements.contains(&t.name))
                .flat_map(|t| t.fields.iter().map(|f| f.name.clone()))
                .collect();
            let related = a == b || types[a].implements.contains(&types[b].name);
            let own_prop = types[a]
                .fields
                .iter()
                .position(|f| !all_type_names.contains(&f.ty.base) && !inherited.contains(&f.name));
            if let (false, Some(pi)) = (related || types[a].fields.iter().any(|f| f.name == ename), own_prop) {
                // parameter semantics of edges elsewhere may refer to this property by name: keep those intact
                let pname = types[a].fields[pi].name.clone();
                let referenced = sem.values().any(|s| match s {
                    ParamSem::FilterEq { prop, .. } | ParamSem::MinValue { prop, .. } | ParamSem::OneOfList { prop, .. } => *prop == pname,
                    _ => false,
                });
                if !referenced {
                    types[a].fields[pi].name = ename;
                }
            }
        }
    }

    // 4. root type
    let root = names.root_name();
    let n_entry = 1 + c.below(3);
    let mut root_fields = vec![];
    for i in 0..n_entry {
        let target_idx = c.below(types.len());
        let target = types[target_idx].name.clone();
        let shapes = edge_shapes(&target);
        let shape = shapes[c.below(4)].clone();
        let ename = names.entry_name(i);
        let mut params = vec![];
        let mut esem = ParamSem::Ignore;
        if c.chance(70) {
            let target_props: Vec<FieldDef> = types[target_idx]
                .fields
                .iter()
                .filter(|f| !all_type_names.contains(&f.ty.base))
                .cloned()
                .collect();
            if c.chance(128) {
                let pty = Ty::named("Int", c.chance(170));
                let default = gen_param_default(c, &pty);
                params.push(ParamDef { name: "take".into(), ty: pty, default });
                esem = ParamSem::Take { param: "take".into() };
            } else if let Some(p) = pick_where(c, &target_props, |p| !p.ty.is_list()) {
                let pty = Ty { base: p.ty.base.clone(), nulls: vec![c.chance(170)] };
                let default = gen_param_default(c, &pty);
                params.push(ParamDef { name: "eqv".into(), ty: pty, default });
                esem = ParamSem::FilterEq { param: "eqv".into(), prop: p.name.clone() };
            }
        }
        sem.insert(ename.clone(), esem);
        root_fields.push(FieldDef { name: ename, ty: shape, params, doc: None });
    }
    types.push(TypeDef {
        name: root.clone(),
        is_interface: false,
        implements: vec![],
        fields: root_fields,
        doc: None,
    });

    if cfg.docs {
        for t in types.iter_mut() {
            if c.chance(60) {
                t.doc = Some(format!("docs for {}", t.name));
            }
        }
    }

    let mut doc = SchemaDoc {
        root: root.clone(),
        types,
        scalars: vec![],
        extra_directives: vec![],
        include_directives: true,
        schema_blocks: vec![root],
        sem,
    };
    if !validate_schema(&doc).is_empty() {
        // fall back to exact copies of the introducing type's definition for every inherited field
        canonicalize_inherited(&mut doc);
    }
    doc
}

/// Replace every inherited field by an exact copy of its (unique) origin's definition.
pub fn canonicalize_inherited(doc: &mut SchemaDoc) {
    let snapshot = doc.clone();
    for t in doc.types.iter_mut() {
        for f in t.fields.iter_mut() {
            let origins = snapshot.field_origins(&t.name, &f.name);
            if let Some(o) = origins.iter().next() {
                if o != &t.name {
                    if let Some(of) = snapshot.field(o, &f.name) {
                        f.ty = of.ty.clone();
                        f.params = of.params.clone();
                    }
                }
            }
        }
    }
}

fn gen_param_default(c: &mut Choices<'_>, ty: &Ty) -> Option<Value> {
    // required (no default, non-null) / implicit null / explicit default
    match c.below(3) {
        0 => None,
        _ => {
            let v = gen_default_for(c, ty);
            // an explicit `null` default is legal only for nullable parameters, which gen_value respects
            Some(v)
        }
    }
}

fn pick_where<'a, T>(c: &mut Choices<'_>, items: &'a [T], pred: impl Fn(&T) -> bool) -> Option<&'a T> {
    let ok: Vec<&T> = items.iter().filter(|x| pred(x)).collect();
    if ok.is_empty() { None } else { Some(ok[c.below(ok.len())]) }
}

fn order_implements(types: &[TypeDef], set: BTreeSet<String>) -> Vec<String> {
    // definition order (deterministic)
    types.iter().filter(|t| set.contains(&t.name)).map(|t| t.name.clone()).collect()
}

fn named_is_subtype(types: &[TypeDef], sup: &str, sub: &str) -> bool {
    sup == sub
        || types.iter().find(|t| t.name == sub).map(|t| t.implements.iter().any(|i| i == sup)).unwrap_or(false)
}

/// `sub` may replace `sup` as the type of an inherited field
pub fn field_ty_is_subtype(types: &[TypeDef], sup: &Ty, sub: &Ty) -> bool {
    if sup.nulls.len() != sub.nulls.len() {
        return false;
    }
    let is_vertex = types.iter().any(|t| t.name == sup.base);
    let base_ok = if is_vertex { named_is_subtype(types, &sup.base, &sub.base) } else { sup.base == sub.base };
    base_ok && sup.nulls.iter().zip(sub.nulls.iter()).all(|(p, s)| *p || !*s)
}

fn merge_params_wider(a: &[ParamDef], b: &[ParamDef]) -> Vec<ParamDef> {
    // same names by construction; keep the wider (more nullable) type per parameter
    a.iter()
        .map(|pa| {
            let pb = b.iter().find(|x| x.name == pa.name);
            match pb {
                Some(pb) if pb.ty.nulls.iter().zip(pa.ty.nulls.iter()).any(|(x, y)| *x && !*y) => {
                    let mut p = pa.clone();
                    p.ty = Ty {
                        base: pa.ty.base.clone(),
                        nulls: pa.ty.nulls.iter().zip(pb.ty.nulls.iter()).map(|(x, y)| *x || *y).collect(),
                    };
                    p
                }
                _ => pa.clone(),
            }
        })
        .collect()
}

fn repair_inherited_edge_types(types: &mut Vec<TypeDef>, all: &[String]) {
    // process in definition order: ancestors (interfaces) come first
    for idx in 0..types.len() {
        let implemented = types[idx].implements.clone();
        if implemented.is_empty() {
            continue;
        }
        let snapshot = types.clone();
        for f in types[idx].fields.iter_mut() {
            let mut ty = f.ty.clone();
            let mut params = f.params.clone();
            for iname in &implemented {
                let idef = snapshot.iter().find(|t| &t.name == iname).unwrap();
                if let Some(pf) = idef.fields.iter().find(|x| x.name == f.name) {
                    // nullability: non-null wherever the ancestor is non-null
                    if pf.ty.nulls.len() == ty.nulls.len() {
                        for (n, p) in ty.nulls.iter_mut().zip(pf.ty.nulls.iter()) {
                            if !*p {
                                *n = false;
                            }
                        }
                    } else {
                        ty = pf.ty.clone();
                    }
                    // base: must be a subtype of the ancestor's base
                    if all.contains(&pf.ty.base) && !named_is_subtype(&snapshot, &pf.ty.base, &ty.base) {
                        ty.base = pf.ty.base.clone();
                    }
                    // parameters: child parameter types must be supertypes of the ancestor's
                    for p in params.iter_mut() {
                        if let Some(pp) = pf.params.iter().find(|x| x.name == p.name) {
                            if pp.ty.nulls.len() == p.ty.nulls.len() {
                                for (n, a) in p.ty.nulls.iter_mut().zip(pp.ty.nulls.iter()) {
                                    if *a {
                                        *n = true;
                                    }
                                }
                            }
                        }
                    }
                }
            }
            // second pass for bases: pick the most specific base compatible with all ancestors
            for iname in &implemented {
                let idef = snapshot.iter().find(|t| &t.name == iname).unwrap();
                if let Some(pf) = idef.fields.iter().find(|x| x.name == f.name) {
                    if all.contains(&pf.ty.base) && !named_is_subtype(&snapshot, &pf.ty.base, &ty.base) {
                        ty.base = pf.ty.base.clone();
                    }
                }
            }
            f.ty = ty;
            f.params = params;
        }
    }
}

/// Independent check of the generator's promise (used as a harness self-check): returns the list of
/// violated documented rules for a schema document (structural + inheritance rules).
pub fn validate_schema(s: &SchemaDoc) -> Vec<String> {
    let mut errs = vec![];
    if s.schema_blocks.len() != 1 {
        errs.push(format!("schema-block-count:{}", s.schema_blocks.len()));
        return errs;
    }
    let root = &s.schema_blocks[0];
    {
        let mut dnames: Vec<&str> = vec![];
        if s.include_directives {
            dnames.extend(["filter", "tag", "output", "optional", "recurse", "fold", "transform"]);
        }
        dnames.extend(s.extra_directives.iter().map(|x| x.as_str()));
        let mut dseen = BTreeSet::new();
        for d in dnames {
            if !dseen.insert(d) {
                errs.push(format!("duplicate-directive:{d}"));
            }
        }
        let mut sseen = BTreeSet::new();
        for sc in &s.scalars {
            if !sseen.insert(sc.as_str()) {
                errs.push(format!("duplicate-scalar:{sc}"));
            }
            if SCALARS.contains(&sc.as_str()) || sc == "ID" {
                errs.push(format!("builtin-redefined:{sc}"));
            }
            if s.types.iter().any(|t| &t.name == sc) {
                errs.push(format!("duplicate-type:{sc}"));
            }
        }
    }
    let mut seen = BTreeSet::new();
    for t in &s.types {
        if !seen.insert(t.name.clone()) {
            errs.push(format!("duplicate-type:{}", t.name));
        }
        if SCALARS.contains(&t.name.as_str()) || t.name == "ID" {
            errs.push(format!("builtin-redefined:{}", t.name));
        }
    }
    match s.type_def(root) {
        None => errs.push("root-undefined".into()),
        Some(t) if t.is_interface => errs.push("root-is-interface".into()),
        _ => {}
    }
    for t in &s.types {
        if t.name.starts_with("__") {
            errs.push(format!("reserved-type-name:{}", t.name));
        }
        let mut fseen = BTreeSet::new();
        for f in &t.fields {
            if !fseen.insert(f.name.clone()) {
                errs.push(format!("duplicate-field:{}.{}", t.name, f.name));
            }
            if f.name.starts_with("__") {
                errs.push(format!("reserved-field-name:{}.{}", t.name, f.name));
            }
            let is_builtin = SCALARS.contains(&f.ty.base.as_str()) || f.ty.base == "ID";
            if is_builtin {
                if !f.params.is_empty() {
                    errs.push(format!("property-with-params:{}.{}", t.name, f.name));
                }
                if &t.name == root {
                    errs.push(format!("property-on-root:{}.{}", t.name, f.name));
                }
            } else if s.is_vertex_type(&f.ty.base) {
                if &f.ty.base == root {
                    errs.push(format!("edge-to-root:{}.{}", t.name, f.name));
                } else {
                    if f.ty.depth() >= 2 {
                        errs.push(format!("edge-list-of-list:{}.{}", t.name, f.name));
                    }
                    for p in &f.params {
                        if let Some(d) = &p.default {
                            if !p.ty.valid(d) {
                                errs.push(format!("bad-default:{}.{}.{}", t.name, f.name, p.name));
                            }
                        }
                    }
                }
            } else {
                errs.push(format!("unknown-field-type:{}.{}", t.name, f.name));
            }
        }
        let impls: BTreeSet<&str> = t.implements.iter().map(|x| x.as_str()).collect();
        for i in &t.implements {
            match s.type_def(i) {
                None => errs.push(format!("implements-unknown:{}:{}", t.name, i)),
                Some(idef) if !idef.is_interface => errs.push(format!("implements-object:{}:{}", t.name, i)),
                Some(idef) => {
                    for ii in &idef.implements {
                        if ii != &t.name && !impls.contains(ii.as_str()) {
                            errs.push(format!("missing-transitive:{}:{}:{}", t.name, i, ii));
                        }
                    }
                    for pf in &idef.fields {
                        match t.fields.iter().find(|f| f.name == pf.name) {
                            None => errs.push(format!("missing-inherited-field:{}:{}:{}", t.name, i, pf.name)),
                            Some(f) => {
                                if !field_ty_is_subtype(&s.types, &pf.ty, &f.ty) {
                                    errs.push(format!("widened-inherited-type:{}:{}:{}", t.name, i, pf.name));
                                }
                                let pn: BTreeSet<&str> = pf.params.iter().map(|p| p.name.as_str()).collect();
                                let cn: BTreeSet<&str> = f.params.iter().map(|p| p.name.as_str()).collect();
                                if pn.difference(&cn).next().is_some() {
                                    errs.push(format!("inherited-missing-param:{}:{}:{}", t.name, i, pf.name));
                                }
                                if cn.difference(&pn).next().is_some() {
                                    errs.push(format!("inherited-extra-param:{}:{}:{}", t.name, i, pf.name));
                                }
                                for cp in &f.params {
                                    if let Some(pp) = pf.params.iter().find(|x| x.name == cp.name) {
                                        // child's parameter type must be a supertype of the parent's
                                        if !pp.ty.is_subtype_of(&cp.ty) {
                                            errs.push(format!(
                                                "narrowed-param:{}:{}:{}:{}",
                                                t.name, i, pf.name, cp.name
                                            ));
                                        }
                                    }
                                }
                            }
                        }
                    }
                }
            }
        }
        if t.implements.iter().any(|i| i == &t.name) {
            errs.push(format!("implements-self:{}", t.name));
        }
        for f in &t.fields {
            if s.field_origins(&t.name, &f.name).len() > 1 {
                errs.push(format!("ambiguous-origin:{}.{}", t.name, f.name));
            }
        }
    }
    // cycles
    for t in &s.types {
        let mut stack: Vec<&str> = t.implements.iter().map(|x| x.as_str()).collect();
        let mut visited = BTreeSet::new();
        while let Some(x) = stack.pop() {
            if x == t.name && !t.implements.iter().any(|i| i == &t.name) {
                errs.push(format!("implements-cycle:{}", t.name));
                break;
            }
            if !visited.insert(x) {
                continue;
            }
            if let Some(d) = s.type_def(x) {
                stack.extend(d.implements.iter().map(|y| y.as_str()));
            }
        }
    }
    errs.sort();
    errs.dedup();
    errs
}

/// Name pools. Engine-facing checks use plain distinct names; C26 uses hostile ones.
pub struct NamePool {
    hostile: bool,
    /// 0: I<i> / T<i>; 1: Z<i> / T<i> (interfaces sort last); 2: I<i> / A<i> (objects sort first); 3: as 0 with reversed
    /// indices; 4: Z / A reversed; 5: N<i>a / N<i>b (interleaved)
    style: usize,
}

impl NamePool {
    pub fn new(hostile: bool) -> Self {
        Self { hostile, style: 0 }
    }
    pub fn with_style(hostile: bool, style: usize) -> Self {
        Self { hostile, style }
    }
    pub fn type_name(&self, i: usize, iface: bool) -> String {
        if self.hostile {
            let pool_i = ["Foo", "foo", "Foo_", "FOO", "Self_", "Type", "Vertex", "Adapter"];
            let pool_o = ["Bar", "bar", "Bar_", "BAR", "Match", "Crate", "Entrypoints", "Box"];
            if iface { pool_i[i % pool_i.len()].to_string() } else { pool_o[i % pool_o.len()].to_string() }
        } else {
            let (pi, po, rev) = match self.style {
                1 => ("Z", "T", false),
                2 => ("I", "A", false),
                3 => ("I", "T", true),
                4 => ("Z", "A", true),
                5 => ("N", "N", false),
                _ => ("I", "T", false),
            };
            let k = if rev { 29 - i.min(29) } else { i };
            if self.style == 5 {
                format!("N{k}{}", if iface { "a" } else { "b" })
            } else if iface {
                format!("{pi}{k}")
            } else {
                format!("{po}{k}")
            }
        }
    }
    pub fn prop_name(&self, i: usize) -> String {
        if self.hostile {
            let pool = ["type", "match", "self_", "fn", "r#ref", "name", "Name", "name_", "NAME", "loop", "async", "move"];
            let base = pool[i % pool.len()].replace("r#", "");
            if i >= pool.len() { format!("{base}{}", i / pool.len()) } else { base }
        } else {
            format!("p{i}")
        }
    }
    pub fn edge_name(&self, i: usize) -> String {
        if self.hostile {
            let pool = ["impl", "edge", "Edge", "edge_", "EDGE", "where", "dyn", "resolve_property", "super_", "in"];
            let base = pool[i % pool.len()].to_string();
            if i >= pool.len() { format!("{base}{}", i / pool.len()) } else { base }
        } else {
            format!("e{i}")
        }
    }
    pub fn entry_name(&self, i: usize) -> String {
        if self.hostile {
            let pool = ["Start", "start", "START", "Type_"];
            pool[i % pool.len()].to_string()
        } else {
            format!("Start{i}")
        }
    }
    pub fn root_name(&self) -> String {
        "RootQ".into()
    }
}
