use std::path::PathBuf;

use tfv::checks;
use tfv::runner::{CheckCtx, Tier};

fn main() {
    let args: Vec<String> = std::env::args().collect();
    if args.len() < 2 {
        eprintln!("usage: tfcheck <ID> [quick|thorough] [--replay <file>]");
        std::process::exit(2);
    }
    let id = args[1].to_uppercase();
    let mut tier = match std::env::var("VERIF_TIER").ok().as_deref() {
        Some("thorough") => Tier::Thorough,
        _ => Tier::Quick,
    };
    let mut replay = None;
    if id == "C14-DIGEST" {
        let n: usize = args.get(2).and_then(|s| s.parse().ok()).unwrap_or(100);
        let seed = std::env::var("VERIF_SEED").ok().and_then(|s| s.trim().parse::<i128>().ok()).map(|v| v as u64).unwrap_or(20260921);
        let ctx = CheckCtx { property: "C14".into(), tier: Tier::Quick, seed, replay: None, threads: 1, scale: 1.0 };
        tfv::engine::install_panic_hook();
        std::process::exit(checks::misc::c14_emit(&ctx, n));
    }
    if id == "C27-EMIT" {
        let n: usize = args.get(2).and_then(|s| s.parse().ok()).unwrap_or(100);
        let seed = std::env::var("VERIF_SEED").ok().and_then(|s| s.trim().parse::<i128>().ok()).map(|v| v as u64).unwrap_or(20260921);
        tfv::engine::install_panic_hook();
        std::process::exit(checks::python::c27_emit(seed, n));
    }
    #[cfg(feature = "threads")]
    if id == "C24-WORKER" {
        let index: u64 = args.get(2).and_then(|s| s.parse().ok()).unwrap_or(0);
        let batches: usize = args.get(3).and_then(|s| s.parse().ok()).unwrap_or(60);
        let seed = std::env::var("VERIF_SEED").ok().and_then(|s| s.trim().parse::<i128>().ok()).map(|v| v as u64).unwrap_or(20260921);
        tfv::engine::install_panic_hook();
        std::process::exit(checks::threads::c24_worker(seed, index, batches));
    }
    let mut i = 2;
    while i < args.len() {
        match args[i].as_str() {
            "quick" => tier = Tier::Quick,
            "thorough" => tier = Tier::Thorough,
            "--replay" => {
                i += 1;
                replay = args.get(i).map(PathBuf::from);
            }
            other => {
                eprintln!("unknown argument {other}");
                std::process::exit(2);
            }
        }
        i += 1;
    }
    let seed = std::env::var("VERIF_SEED").ok().and_then(|s| s.trim().parse::<i128>().ok()).map(|v| v as u64).unwrap_or(20260921);
    let threads = std::env::var("VERIF_THREADS").ok().and_then(|s| s.parse().ok()).unwrap_or(16);
    let scale = tfv::runner::env_scale();
    let ctx = CheckCtx { property: id.clone(), tier, seed, replay, threads, scale };
    tfv::engine::install_panic_hook();
    tfv::runner::start_memory_watchdog(24);
    let code = match id.as_str() {
        "C01" => checks::world::c01(&ctx),
        "C09" => checks::world::c09(&ctx),
        "C02" => checks::adapters::c02(&ctx),
        "C03" => checks::adapters::c03(&ctx),
        "C05" => checks::adapters::c05(&ctx),
        "C21" => checks::adapters::c21(&ctx),
        "C10" => checks::frontend::c10(&ctx),
        "C11" => checks::ir::c11(&ctx),
        "C13" => checks::ir::c13(&ctx),
        "C12" => checks::misc::c12(&ctx),
        "C14" => checks::misc::c14(&ctx),
        "C15" => checks::misc::c15(&ctx),
        "C19" => checks::schema::c19(&ctx),
        "C08" => checks::fieldvalue::c08(&ctx),
        "C16" => checks::serial::c16(&ctx),
        "C18" => checks::decode::c18(&ctx),
        "C04" => checks::hints::c04(&ctx),
        "C20" => checks::introspect::c20(&ctx),
        "C25" => checks::introspect::c25(&ctx),
        "C22" => checks::meta::c22(&ctx),
        "C23" => checks::meta::c23(&ctx),
        #[cfg(feature = "threads")]
        "C24" => checks::threads::c24(&ctx),
        #[cfg(not(feature = "threads"))]
        "C24" => {
            eprintln!("C24 needs the harness built with --features threads (use ./check)");
            2
        }
        #[cfg(feature = "hooks")]
        "C06" => checks::lattice::c06(&ctx),
        #[cfg(feature = "hooks")]
        "C17" => checks::lattice::c17(&ctx),
        #[cfg(feature = "hooks")]
        "C07" => checks::filters::c07(&ctx),
        #[cfg(not(feature = "hooks"))]
        "C06" | "C07" | "C17" => {
            eprintln!("{id} needs the harness built with --features hooks (use ./check)");
            2
        }
        _ => {
            eprintln!("unknown property {id}");
            2
        }
    };
    std::process::exit(code);
}
