//! C04: an adapter that discards vertices using only what the hint API documents as binding.

use std::{
    cell::{Cell, RefCell},
    collections::{BTreeMap, BTreeSet, VecDeque},
    ops::Bound,
    rc::Rc,
    sync::Arc,
};

use trustfall_core::{
    interpreter::{
        Adapter, AsVertex, CandidateValue, ContextIterator, ContextOutcomeIterator, EdgeInfo, ResolveEdgeInfo, ResolveInfo,
        VertexInfo, VertexIterator,
    },
    ir::{EdgeParameters, FieldValue},
};

use crate::adapter::{params_to_map, GraphAdapter, GV};
use crate::data::World;
use crate::values::{cmp_scalar, eq, Value};

/// Reference membership on the public candidate enum (harness value order, not the engine's).
pub fn member(c: &CandidateValue<FieldValue>, v: &Value) -> bool {
    let fv = Value::from_field_value;
    match c {
        CandidateValue::Impossible => false,
        CandidateValue::All => true,
        CandidateValue::Single(s) => eq(&fv(s), v),
        CandidateValue::Multiple(m) => m.iter().any(|x| eq(&fv(x), v)),
        CandidateValue::Range(r) => {
            if v.is_null() {
                return r.null_included();
            }
            let lo = match r.start_bound() {
                Bound::Unbounded => true,
                Bound::Included(b) => cmp_scalar(&fv(b), v).map(|o| o != std::cmp::Ordering::Greater).unwrap_or(false),
                Bound::Excluded(b) => cmp_scalar(&fv(b), v).map(|o| o == std::cmp::Ordering::Less).unwrap_or(false),
            };
            let hi = match r.end_bound() {
                Bound::Unbounded => true,
                Bound::Included(b) => cmp_scalar(v, &fv(b)).map(|o| o != std::cmp::Ordering::Greater).unwrap_or(false),
                Bound::Excluded(b) => cmp_scalar(v, &fv(b)).map(|o| o == std::cmp::Ordering::Less).unwrap_or(false),
            };
            lo && hi
        }
        _ => true, // unknown future variants: never prune
    }
}

#[derive(Default, Debug)]
pub struct PruneStats {
    pub pruned_by_static: Cell<u64>,
    pub pruned_by_dynamic: Cell<u64>,
    pub pruned_by_mandatory_edge: Cell<u64>,
    pub static_candidates_consulted: Cell<u64>,
    pub dynamic_candidates_consulted: Cell<u64>,
    pub mandatory_edges_consulted: Cell<u64>,
    pub kinds: RefCell<BTreeSet<String>>,
}

impl PruneStats {
    pub fn total_pruned(&self) -> u64 {
        self.pruned_by_static.get() + self.pruned_by_dynamic.get() + self.pruned_by_mandatory_edge.get()
    }
    pub fn informative(&self) -> bool {
        self.total_pruned() > 0
            || self.static_candidates_consulted.get() + self.dynamic_candidates_consulted.get() + self.mandatory_edges_consulted.get() > 0
    }
}

fn bump(c: &Cell<u64>) {
    c.set(c.get() + 1);
}

#[derive(Clone, Default, Debug)]
pub struct PruneConfig {
    /// (query vertex id, property) pairs whose dynamic hints are ignored (exclusion of a listed finding / attribution)
    pub ignore_dynamic: BTreeSet<(usize, String)>,
    pub use_static: bool,
    pub use_dynamic: bool,
    pub use_mandatory: bool,
}

pub struct PruningAdapter {
    pub inner: GraphAdapter,
    pub world: Arc<World>,
    pub stats: Rc<PruneStats>,
    pub cfg: PruneConfig,
}

type StaticCands = Vec<(String, CandidateValue<FieldValue>)>;

/// a mandatory edge requirement: edge name, parameters, and (one level deeper) the destination's static candidates
/// and the names+parameters of its own mandatory edges
#[derive(Clone)]
struct Mandatory {
    edge: String,
    params: BTreeMap<String, Value>,
    dest_static: StaticCands,
    dest_mandatory: Vec<(String, BTreeMap<String, Value>)>,
}

impl PruningAdapter {
    pub fn new(world: Arc<World>, cfg: PruneConfig) -> (Self, Rc<PruneStats>) {
        let stats = Rc::new(PruneStats::default());
        (Self { inner: GraphAdapter::new(world.clone()), world, stats: stats.clone(), cfg }, stats)
    }

    fn vid_of(info: &dyn VertexInfo) -> usize {
        serde_json::to_value(info.vid()).ok().and_then(|x| x.as_u64()).unwrap_or(0) as usize
    }

    fn static_candidates(&self, info: &dyn VertexInfo, ty: &str) -> StaticCands {
        let mut out = vec![];
        if !self.cfg.use_static {
            return out;
        }
        let mut names: Vec<String> = self.world.schema.properties(ty).iter().map(|p| p.name.clone()).collect();
        names.push("__typename".into());
        for p in names {
            if let Some(c) = info.statically_required_property(&p) {
                bump(&self.stats.static_candidates_consulted);
                if !matches!(c, CandidateValue::All) {
                    self.stats.kinds.borrow_mut().insert(format!("static:{}", variant(&c)));
                }
                out.push((p, c));
            }
        }
        out
    }

    fn edge_requirement(&self, e: &EdgeInfo, from_ty: &str, name: &str) -> Mandatory {
        let dest = e.destination();
        let dest_ty = dest
            .coerced_to_type()
            .map(|t| t.to_string())
            .or_else(|| self.world.schema.field(from_ty, name).map(|f| f.ty.base.clone()))
            .unwrap_or_default();
        let dest_static = self.static_candidates(dest, &dest_ty);
        let mut dest_mandatory = vec![];
        for de in self.world.schema.edges(&dest_ty) {
            for m in dest.mandatory_edges_with_name(&de.name) {
                dest_mandatory.push((de.name.clone(), params_to_map(m.parameters())));
            }
        }
        Mandatory { edge: name.to_string(), params: params_to_map(e.parameters()), dest_static, dest_mandatory }
    }

    fn mandatory(&self, info: &dyn VertexInfo, ty: &str) -> Vec<Mandatory> {
        let mut out = vec![];
        if !self.cfg.use_mandatory {
            return out;
        }
        for e in self.world.schema.edges(ty) {
            for m in info.mandatory_edges_with_name(&e.name) {
                bump(&self.stats.mandatory_edges_consulted);
                out.push(self.edge_requirement(&m, ty, &e.name));
            }
        }
        out
    }
}

fn variant(c: &CandidateValue<FieldValue>) -> &'static str {
    match c {
        CandidateValue::Impossible => "impossible",
        CandidateValue::Single(_) => "single",
        CandidateValue::Multiple(_) => "multiple",
        CandidateValue::Range(_) => "range",
        CandidateValue::All => "all",
        _ => "other",
    }
}

fn passes_static(world: &World, id: u32, cands: &StaticCands) -> bool {
    cands.iter().all(|(p, c)| !world.has_prop(id, p) || member(c, &world.prop(id, p)))
}

fn passes_mandatory(world: &World, id: u32, reqs: &[Mandatory]) -> bool {
    reqs.iter().all(|m| {
        if !world.vertex(id).edges.contains_key(&m.edge) {
            // the vertex's type lacks the edge (it will be discarded by a coercion anyway): never prune on that basis
            return true;
        }
        let ns = world.neighbors(id, &m.edge, &m.params);
        ns.iter().any(|n| {
            passes_static(world, *n, &m.dest_static)
                && m.dest_mandatory.iter().all(|(e2, p2)| !world.vertex(*n).edges.contains_key(e2) || !world.neighbors(*n, e2, p2).is_empty())
        })
    })
}

impl<'a> Adapter<'a> for PruningAdapter {
    type Vertex = GV;

    fn resolve_starting_vertices(
        &self,
        edge_name: &Arc<str>,
        parameters: &EdgeParameters,
        resolve_info: &ResolveInfo,
    ) -> VertexIterator<'a, Self::Vertex> {
        let ty = resolve_info
            .coerced_to_type()
            .map(|t| t.to_string())
            .or_else(|| self.world.schema.field(&self.world.schema.root, edge_name).map(|f| f.ty.base.clone()))
            .unwrap_or_default();
        let statics = self.static_candidates(resolve_info, &ty);
        let mandatory = self.mandatory(resolve_info, &ty);
        let world = self.world.clone();
        let stats = self.stats.clone();
        let inner = self.inner.resolve_starting_vertices(edge_name, parameters, resolve_info);
        Box::new(inner.filter(move |v| {
            if !passes_static(&world, v.id, &statics) {
                bump(&stats.pruned_by_static);
                stats.kinds.borrow_mut().insert("pruned:start:static".into());
                return false;
            }
            if !passes_mandatory(&world, v.id, &mandatory) {
                bump(&stats.pruned_by_mandatory_edge);
                stats.kinds.borrow_mut().insert("pruned:start:mandatory-edge".into());
                return false;
            }
            true
        }))
    }

    fn resolve_property<V: AsVertex<Self::Vertex> + 'a>(
        &self,
        contexts: ContextIterator<'a, V>,
        type_name: &Arc<str>,
        property_name: &Arc<str>,
        resolve_info: &ResolveInfo,
    ) -> ContextOutcomeIterator<'a, V, FieldValue> {
        self.inner.resolve_property(contexts, type_name, property_name, resolve_info)
    }

    fn resolve_neighbors<V: AsVertex<Self::Vertex> + 'a>(
        &self,
        contexts: ContextIterator<'a, V>,
        type_name: &Arc<str>,
        edge_name: &Arc<str>,
        parameters: &EdgeParameters,
        resolve_info: &ResolveEdgeInfo,
    ) -> ContextOutcomeIterator<'a, V, VertexIterator<'a, Self::Vertex>> {
        let dest = resolve_info.destination();
        let dest_vid = Self::vid_of(&dest);
        let ty = dest
            .coerced_to_type()
            .map(|t| t.to_string())
            .or_else(|| self.world.schema.field(type_name, edge_name).map(|f| f.ty.base.clone()))
            .unwrap_or_default();
        let statics = self.static_candidates(&dest, &ty);
        let mandatory = self.mandatory(&dest, &ty);

        // dynamic candidates: one queue of per-context accumulated candidates, threaded through each resolve()
        type Acc = Vec<(String, CandidateValue<FieldValue>)>;
        let queue: Rc<RefCell<VecDeque<Acc>>> = Rc::new(RefCell::new(VecDeque::new()));
        let mut stream: Box<dyn Iterator<Item = (trustfall_core::interpreter::DataContext<V>, Acc)> + 'a> =
            Box::new(contexts.map(|c| (c, Vec::new())));
        if self.cfg.use_dynamic {
            let mut names: Vec<String> = self.world.schema.properties(&ty).iter().map(|p| p.name.clone()).collect();
            names.push("__typename".into());
            for p in names {
                if self.cfg.ignore_dynamic.contains(&(dest_vid, p.clone())) {
                    continue;
                }
                if let Some(dv) = dest.dynamically_required_property(&p) {
                    bump(&self.stats.dynamic_candidates_consulted);
                    let q_in = queue.clone();
                    let q_out = queue.clone();
                    let ctx_only: ContextIterator<'a, V> = Box::new(stream.map(move |(c, acc)| {
                        q_in.borrow_mut().push_back(acc);
                        c
                    }));
                    let resolved = dv.resolve(self, ctx_only);
                    let pname = p.clone();
                    let stats = self.stats.clone();
                    stream = Box::new(resolved.map(move |(c, cand)| {
                        let mut acc = q_out.borrow_mut().pop_front().expect("HARNESS: candidate queue out of step");
                        if !matches!(cand, CandidateValue::All) {
                            stats.kinds.borrow_mut().insert(format!("dynamic:{}", variant(&cand)));
                        }
                        acc.push((pname.clone(), cand));
                        (c, acc)
                    }));
                }
            }
        }
        let q_in = queue.clone();
        let q_out = queue;
        let ctx_only: ContextIterator<'a, V> = Box::new(stream.map(move |(c, acc)| {
            q_in.borrow_mut().push_back(acc);
            c
        }));
        let inner = self.inner.resolve_neighbors(ctx_only, type_name, edge_name, parameters, resolve_info);
        let world = self.world.clone();
        let stats = self.stats.clone();
        Box::new(inner.map(move |(c, neighbors)| {
            let acc = q_out.borrow_mut().pop_front().expect("HARNESS: candidate queue out of step");
            let world = world.clone();
            let stats = stats.clone();
            let statics = statics.clone();
            let mandatory = mandatory.clone();
            let filtered: VertexIterator<'a, GV> = Box::new(neighbors.filter(move |n| {
                if !passes_static(&world, n.id, &statics) {
                    bump(&stats.pruned_by_static);
                    stats.kinds.borrow_mut().insert("pruned:neighbor:static".into());
                    return false;
                }
                if !passes_static(&world, n.id, &acc) {
                    bump(&stats.pruned_by_dynamic);
                    stats.kinds.borrow_mut().insert("pruned:neighbor:dynamic".into());
                    return false;
                }
                if !passes_mandatory(&world, n.id, &mandatory) {
                    bump(&stats.pruned_by_mandatory_edge);
                    stats.kinds.borrow_mut().insert("pruned:neighbor:mandatory-edge".into());
                    return false;
                }
                true
            }));
            (c, filtered)
        }))
    }

    fn resolve_coercion<V: AsVertex<Self::Vertex> + 'a>(
        &self,
        contexts: ContextIterator<'a, V>,
        type_name: &Arc<str>,
        coerce_to_type: &Arc<str>,
        resolve_info: &ResolveInfo,
    ) -> ContextOutcomeIterator<'a, V, bool> {
        self.inner.resolve_coercion(contexts, type_name, coerce_to_type, resolve_info)
    }
}
