//! Choice stream: every structured input is decoded from a byte vector.
//!
//! * `below(n)` maps a byte monotonically onto `0..n`, so smaller bytes give "simpler" choices;
//! * an exhausted stream yields 0 everywhere (the simplest alternative);
//! * shrinking the byte vector (shorter / smaller bytes) therefore shrinks the decoded structure.

#[derive(Clone, Debug)]
pub struct Choices<'a> {
    data: &'a [u8],
    pos: usize,
}

impl<'a> Choices<'a> {
    pub fn new(data: &'a [u8]) -> Self {
        Self { data, pos: 0 }
    }

    pub fn consumed(&self) -> usize {
        self.pos.min(self.data.len())
    }

    pub fn exhausted(&self) -> bool {
        self.pos >= self.data.len()
    }

    #[inline]
    pub fn byte(&mut self) -> u8 {
        let b = self.data.get(self.pos).copied().unwrap_or(0);
        self.pos += 1;
        b
    }

    /// Uniform-ish choice in `0..n` (n >= 1), monotone in the underlying byte(s).
    pub fn below(&mut self, n: usize) -> usize {
        debug_assert!(n >= 1);
        if n <= 1 {
            return 0;
        }
        if n <= 256 {
            (self.byte() as usize * n) >> 8
        } else {
            let hi = self.byte() as usize;
            let lo = self.byte() as usize;
            (((hi << 8) | lo) * n) >> 16
        }
    }

    /// `true` with probability `p256/256`; a zero byte (or exhausted stream) gives `false`.
    pub fn chance(&mut self, p256: u32) -> bool {
        let b = self.byte() as u32;
        b >= 256 - p256.min(256)
    }

    /// inclusive range
    pub fn range(&mut self, lo: usize, hi: usize) -> usize {
        debug_assert!(hi >= lo);
        lo + self.below(hi - lo + 1)
    }

    pub fn pick<'b, T>(&mut self, items: &'b [T]) -> &'b T {
        &items[self.below(items.len())]
    }

    pub fn u64(&mut self) -> u64 {
        let mut v = 0u64;
        for _ in 0..8 {
            v = (v << 8) | self.byte() as u64;
        }
        v
    }
}

/// FNV-1a 64-bit, used for distinct-case counting and digests (never `HashMap` iteration order).
pub fn fnv64(bytes: &[u8]) -> u64 {
    let mut h: u64 = 0xcbf29ce484222325;
    for b in bytes {
        h ^= *b as u64;
        h = h.wrapping_mul(0x100000001b3);
    }
    h
}

pub fn hex(bytes: &[u8]) -> String {
    let mut s = String::with_capacity(bytes.len() * 2);
    for b in bytes {
        s.push_str(&format!("{b:02x}"));
    }
    s
}

pub fn unhex(s: &str) -> Vec<u8> {
    let s = s.trim();
    (0..s.len() / 2).map(|i| u8::from_str_radix(&s[2 * i..2 * i + 2], 16).unwrap_or(0)).collect()
}
