//! The honest adapter over a harness dataset: strictly lazy, one output per input, in order.

use std::{collections::BTreeMap, sync::Arc};

use serde::{Deserialize, Serialize};
use trustfall_core::{
    interpreter::{
        Adapter, AsVertex, ContextIterator, ContextOutcomeIterator, ResolveEdgeInfo, ResolveInfo,
        VertexIterator,
    },
    ir::{EdgeParameters, FieldValue},
};

use crate::data::World;
use crate::values::Value;

#[derive(Clone, Debug, PartialEq, Eq, Hash, PartialOrd, Ord, Serialize, Deserialize)]
pub struct GV {
    pub id: u32,
}

/// Harness protection, never part of an oracle: the adapter counts every context it processes and every vertex it hands
/// out; past `WORK_LIMIT` it panics with this marker, which `engine::execute` turns into `ExecOutcome::Budget` (the case is
/// then discarded and counted). Generated queries have a heavy tail (deep recursion over dense cyclic data with selective
/// filters can need minutes while producing few rows).
pub const BUDGET_MARKER: &str = "TFV-BUDGET-EXHAUSTED";
pub const WORK_LIMIT: u64 = 400_000;

#[derive(Clone, Debug)]
pub struct GraphAdapter {
    pub world: Arc<World>,
    work: Arc<std::sync::atomic::AtomicU64>,
}

impl GraphAdapter {
    pub fn new(world: Arc<World>) -> Self {
        Self { world, work: Arc::new(std::sync::atomic::AtomicU64::new(0)) }
    }
    /// units of work done so far (contexts processed + vertices handed out)
    pub fn work_done(&self) -> u64 {
        self.work.load(std::sync::atomic::Ordering::Relaxed)
    }
}

#[inline]
fn tick(work: &std::sync::atomic::AtomicU64) {
    if work.fetch_add(1, std::sync::atomic::Ordering::Relaxed) >= WORK_LIMIT {
        panic!("{BUDGET_MARKER}");
    }
}

pub fn params_to_map(p: &EdgeParameters) -> BTreeMap<String, Value> {
    p.iter().map(|(k, v)| (k.to_string(), Value::from_field_value(v))).collect()
}

impl<'a> Adapter<'a> for GraphAdapter {
    type Vertex = GV;

    fn resolve_starting_vertices(
        &self,
        edge_name: &Arc<str>,
        parameters: &EdgeParameters,
        _resolve_info: &ResolveInfo,
    ) -> VertexIterator<'a, Self::Vertex> {
        let ids = self.world.entry_vertices(edge_name, &params_to_map(parameters));
        let work = self.work.clone();
        Box::new(ids.into_iter().map(move |id| {
            tick(&work);
            GV { id }
        }))
    }

    fn resolve_property<V: AsVertex<Self::Vertex> + 'a>(
        &self,
        contexts: ContextIterator<'a, V>,
        _type_name: &Arc<str>,
        property_name: &Arc<str>,
        _resolve_info: &ResolveInfo,
    ) -> ContextOutcomeIterator<'a, V, FieldValue> {
        let world = self.world.clone();
        let prop = property_name.clone();
        let work = self.work.clone();
        Box::new(contexts.map(move |ctx| {
            tick(&work);
            let value = match ctx.active_vertex::<GV>() {
                None => FieldValue::Null,
                Some(gv) => world.prop(gv.id, &prop).to_field_value(),
            };
            (ctx, value)
        }))
    }

    fn resolve_neighbors<V: AsVertex<Self::Vertex> + 'a>(
        &self,
        contexts: ContextIterator<'a, V>,
        _type_name: &Arc<str>,
        edge_name: &Arc<str>,
        parameters: &EdgeParameters,
        _resolve_info: &ResolveEdgeInfo,
    ) -> ContextOutcomeIterator<'a, V, VertexIterator<'a, Self::Vertex>> {
        let world = self.world.clone();
        let edge = edge_name.clone();
        let params = params_to_map(parameters);
        let work = self.work.clone();
        Box::new(contexts.map(move |ctx| {
            tick(&work);
            let neighbors: VertexIterator<'a, GV> = match ctx.active_vertex::<GV>() {
                None => Box::new(std::iter::empty()),
                Some(gv) => {
                    let ids = world.neighbors(gv.id, &edge, &params);
                    let work = work.clone();
                    Box::new(ids.into_iter().map(move |id| {
                        tick(&work);
                        GV { id }
                    }))
                }
            };
            (ctx, neighbors)
        }))
    }

    fn resolve_coercion<V: AsVertex<Self::Vertex> + 'a>(
        &self,
        contexts: ContextIterator<'a, V>,
        _type_name: &Arc<str>,
        coerce_to_type: &Arc<str>,
        _resolve_info: &ResolveInfo,
    ) -> ContextOutcomeIterator<'a, V, bool> {
        let world = self.world.clone();
        let target = coerce_to_type.clone();
        let work = self.work.clone();
        Box::new(contexts.map(move |ctx| {
            tick(&work);
            let ok = match ctx.active_vertex::<GV>() {
                None => false,
                Some(gv) => world.schema.is_subtype(&target, &world.vertex(gv.id).ty),
            };
            (ctx, ok)
        }))
    }
}
