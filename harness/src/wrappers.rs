//! Adapter wrappers: recording (C05, C14, C21), batching / read-ahead (C02), counting (C03).
//! All are generic over an inner adapter whose vertex type is `GV`.

use std::{
    cell::{Cell, RefCell},
    collections::{BTreeMap, VecDeque},
    rc::Rc,
    sync::Arc,
};

use trustfall_core::{
    interpreter::{
        Adapter, AsVertex, ContextIterator, ContextOutcomeIterator, ResolveEdgeInfo, ResolveInfo, VertexInfo,
        VertexIterator,
    },
    ir::{EdgeParameters, FieldValue},
};

use crate::adapter::{params_to_map, GV};
use crate::values::Value;

// ---------------------------------------------------------------------------------------------
// recording

#[derive(Clone, Debug, PartialEq)]
pub enum CallKind {
    Start { edge: String, params: BTreeMap<String, Value> },
    Property { type_name: String, prop: String },
    Neighbors { type_name: String, edge: String, params: BTreeMap<String, Value>, dest_vid: usize, eid: usize },
    Coercion { type_name: String, coerce_to: String },
}

#[derive(Clone, Debug, PartialEq)]
pub struct Call {
    pub kind: CallKind,
    pub vid: usize,
    pub required: Vec<String>,
    /// active vertices of the contexts pulled by this call, in order (None = no active vertex)
    pub contexts: Vec<Option<u32>>,
    /// for Start: the vertices yielded
    pub yielded: Vec<u32>,
}

pub type CallLog = Rc<RefCell<Vec<Call>>>;

pub struct RecordingAdapter<A> {
    pub inner: A,
    pub log: CallLog,
}

impl<A> RecordingAdapter<A> {
    pub fn new(inner: A) -> (Self, CallLog) {
        let log: CallLog = Rc::new(RefCell::new(vec![]));
        (Self { inner, log: log.clone() }, log)
    }
}

fn vid_of(v: trustfall_core::ir::Vid) -> usize {
    // Vid is a transparent NonZeroUsize wrapper; Debug prints `Vid(n)`
    let s = format!("{v:?}");
    s.trim_start_matches("Vid(").trim_end_matches(')').parse().unwrap_or(0)
}

fn eid_of(e: trustfall_core::ir::Eid) -> usize {
    let s = format!("{e:?}");
    s.trim_start_matches("Eid(").trim_end_matches(')').parse().unwrap_or(0)
}

impl<'a, A: Adapter<'a, Vertex = GV> + 'a> Adapter<'a> for RecordingAdapter<A> {
    type Vertex = GV;

    fn resolve_starting_vertices(
        &self,
        edge_name: &Arc<str>,
        parameters: &EdgeParameters,
        resolve_info: &ResolveInfo,
    ) -> VertexIterator<'a, Self::Vertex> {
        let idx = {
            let mut log = self.log.borrow_mut();
            log.push(Call {
                kind: CallKind::Start { edge: edge_name.to_string(), params: params_to_map(parameters) },
                vid: vid_of(resolve_info.vid()),
                required: resolve_info.required_properties().map(|r| r.name.to_string()).collect(),
                contexts: vec![],
                yielded: vec![],
            });
            log.len() - 1
        };
        let log = self.log.clone();
        let inner = self.inner.resolve_starting_vertices(edge_name, parameters, resolve_info);
        Box::new(inner.inspect(move |v| log.borrow_mut()[idx].yielded.push(v.id)))
    }

    fn resolve_property<V: AsVertex<Self::Vertex> + 'a>(
        &self,
        contexts: ContextIterator<'a, V>,
        type_name: &Arc<str>,
        property_name: &Arc<str>,
        resolve_info: &ResolveInfo,
    ) -> ContextOutcomeIterator<'a, V, FieldValue> {
        let idx = {
            let mut log = self.log.borrow_mut();
            log.push(Call {
                kind: CallKind::Property { type_name: type_name.to_string(), prop: property_name.to_string() },
                vid: vid_of(resolve_info.vid()),
                required: resolve_info.required_properties().map(|r| r.name.to_string()).collect(),
                contexts: vec![],
                yielded: vec![],
            });
            log.len() - 1
        };
        let log = self.log.clone();
        let inspected: ContextIterator<'a, V> = Box::new(contexts.inspect(move |ctx| {
            log.borrow_mut()[idx].contexts.push(ctx.active_vertex::<GV>().map(|g| g.id));
        }));
        self.inner.resolve_property(inspected, type_name, property_name, resolve_info)
    }

    fn resolve_neighbors<V: AsVertex<Self::Vertex> + 'a>(
        &self,
        contexts: ContextIterator<'a, V>,
        type_name: &Arc<str>,
        edge_name: &Arc<str>,
        parameters: &EdgeParameters,
        resolve_info: &ResolveEdgeInfo,
    ) -> ContextOutcomeIterator<'a, V, VertexIterator<'a, Self::Vertex>> {
        let idx = {
            let mut log = self.log.borrow_mut();
            log.push(Call {
                kind: CallKind::Neighbors {
                    type_name: type_name.to_string(),
                    edge: edge_name.to_string(),
                    params: params_to_map(parameters),
                    dest_vid: vid_of(resolve_info.destination_vid()),
                    eid: eid_of(resolve_info.eid()),
                },
                vid: vid_of(resolve_info.origin_vid()),
                required: vec![],
                contexts: vec![],
                yielded: vec![],
            });
            log.len() - 1
        };
        let log = self.log.clone();
        let inspected: ContextIterator<'a, V> = Box::new(contexts.inspect(move |ctx| {
            log.borrow_mut()[idx].contexts.push(ctx.active_vertex::<GV>().map(|g| g.id));
        }));
        self.inner.resolve_neighbors(inspected, type_name, edge_name, parameters, resolve_info)
    }

    fn resolve_coercion<V: AsVertex<Self::Vertex> + 'a>(
        &self,
        contexts: ContextIterator<'a, V>,
        type_name: &Arc<str>,
        coerce_to_type: &Arc<str>,
        resolve_info: &ResolveInfo,
    ) -> ContextOutcomeIterator<'a, V, bool> {
        let idx = {
            let mut log = self.log.borrow_mut();
            log.push(Call {
                kind: CallKind::Coercion { type_name: type_name.to_string(), coerce_to: coerce_to_type.to_string() },
                vid: vid_of(resolve_info.vid()),
                required: resolve_info.required_properties().map(|r| r.name.to_string()).collect(),
                contexts: vec![],
                yielded: vec![],
            });
            log.len() - 1
        };
        let log = self.log.clone();
        let inspected: ContextIterator<'a, V> = Box::new(contexts.inspect(move |ctx| {
            log.borrow_mut()[idx].contexts.push(ctx.active_vertex::<GV>().map(|g| g.id));
        }));
        self.inner.resolve_coercion(inspected, type_name, coerce_to_type, resolve_info)
    }
}

// ---------------------------------------------------------------------------------------------
// batching / read-ahead

/// How one iterator is consumed ahead of demand.
#[derive(Clone, Copy, Debug, PartialEq, Eq)]
pub struct ChunkPlan {
    /// chunk sizes cycle through this 2-bit sequence (+1), like the repo's own batching test adapter
    pub sequence: u64,
    /// pull the first chunk eagerly at construction time (before any output is requested)
    pub eager: bool,
    /// pull *everything* up front instead of in chunks
    pub all: bool,
    /// no read-ahead at all
    pub passthrough: bool,
}

impl ChunkPlan {
    pub const NONE: ChunkPlan = ChunkPlan { sequence: 0, eager: false, all: false, passthrough: true };
}

#[derive(Default, Debug)]
pub struct BatchStats {
    /// number of wrapped iterators that had >= 2 items buffered before yielding their first item
    pub read_ahead_events: Cell<u64>,
    pub calls: Cell<u64>,
    pub kinds: RefCell<BTreeMap<&'static str, u64>>,
    /// wrapped iterators that pulled from their source at construction time (before any output was requested)
    pub eager_fills: Cell<u64>,
    /// times a wrapped iterator polled its source again after the source had returned `None`
    pub polls_after_exhaustion: Cell<u64>,
}

pub struct Chunked<I: Iterator> {
    iter: I,
    buffer: VecDeque<I::Item>,
    plan: ChunkPlan,
    offset: u32,
    yielded_any: bool,
    stats: Rc<BatchStats>,
    kind: &'static str,
    counted: bool,
    /// polite: never poll the source again once it has returned `None`
    polite: bool,
    source_exhausted: bool,
}

impl<I: Iterator> Chunked<I> {
    pub fn new(iter: I, plan: ChunkPlan, stats: Rc<BatchStats>, kind: &'static str) -> Self {
        Self::with_manners(iter, plan, stats, kind, false)
    }

    pub fn with_manners(iter: I, plan: ChunkPlan, stats: Rc<BatchStats>, kind: &'static str, polite: bool) -> Self {
        let mut me = Self {
            iter,
            buffer: VecDeque::new(),
            plan,
            offset: 0,
            yielded_any: false,
            stats,
            kind,
            counted: false,
            polite,
            source_exhausted: false,
        };
        if !plan.passthrough && plan.eager {
            me.stats.eager_fills.set(me.stats.eager_fills.get() + 1);
            me.fill();
        }
        me
    }

    fn pull(&mut self) -> Option<I::Item> {
        if self.source_exhausted {
            if self.polite {
                return None;
            }
            self.stats.polls_after_exhaustion.set(self.stats.polls_after_exhaustion.get() + 1);
        }
        let x = self.iter.next();
        if x.is_none() {
            self.source_exhausted = true;
        }
        x
    }

    fn next_chunk_size(&mut self) -> usize {
        let n = ((self.plan.sequence >> self.offset) & 3) + 1;
        self.offset = if self.offset >= 62 { 0 } else { self.offset + 2 };
        n as usize
    }

    fn fill(&mut self) {
        // (written with explicit pulls so that polling an exhausted source again is observable and can be switched off;
        // like `extend(iter.by_ref().take(n))`, a short chunk is followed by another poll on the next fill)
        let n = if self.plan.all { usize::MAX } else { self.next_chunk_size() };
        for _ in 0..n {
            match self.pull() {
                Some(x) => self.buffer.push_back(x),
                None => break,
            }
        }
        if !self.yielded_any && !self.counted && self.buffer.len() >= 2 {
            self.counted = true;
            self.stats.read_ahead_events.set(self.stats.read_ahead_events.get() + 1);
            *self.stats.kinds.borrow_mut().entry(self.kind).or_insert(0) += 1;
        }
    }
}

impl<I: Iterator> Iterator for Chunked<I> {
    type Item = I::Item;
    fn next(&mut self) -> Option<Self::Item> {
        if self.plan.passthrough {
            return self.pull();
        }
        if self.buffer.is_empty() {
            self.fill();
        }
        let x = self.buffer.pop_front();
        if x.is_some() {
            self.yielded_any = true;
        }
        x
    }

    /// exact whenever the source's is (real adapters often hand out `Vec::into_iter`, and engine code may look at it)
    fn size_hint(&self) -> (usize, Option<usize>) {
        let (lo, hi) = if self.source_exhausted { (0, Some(0)) } else { self.iter.size_hint() };
        (lo.saturating_add(self.buffer.len()), hi.and_then(|h| h.checked_add(self.buffer.len())))
    }
}

/// Per resolver call: (input plan, output plan, per-neighbour-iterator plan)
#[derive(Clone, Copy, Debug, PartialEq, Eq)]
pub struct CallPlan {
    pub input: ChunkPlan,
    pub output: ChunkPlan,
    pub neighbors: ChunkPlan,
}

pub struct BatchingAdapter<A> {
    pub inner: A,
    pub schedule: RefCell<VecDeque<CallPlan>>,
    pub stats: Rc<BatchStats>,
    /// never poll an exhausted input again (see `Chunked::polite`)
    pub polite: bool,
}

impl<A> BatchingAdapter<A> {
    pub fn new(inner: A, schedule: Vec<CallPlan>) -> (Self, Rc<BatchStats>) {
        let stats = Rc::new(BatchStats::default());
        (Self { inner, schedule: RefCell::new(schedule.into()), stats: stats.clone(), polite: false }, stats)
    }
    pub fn new_polite(inner: A, schedule: Vec<CallPlan>) -> (Self, Rc<BatchStats>) {
        let (mut me, stats) = Self::new(inner, schedule);
        me.polite = true;
        (me, stats)
    }
    fn next_plan(&self) -> CallPlan {
        self.stats.calls.set(self.stats.calls.get() + 1);
        self.schedule.borrow_mut().pop_front().unwrap_or(CallPlan {
            input: ChunkPlan::NONE,
            output: ChunkPlan::NONE,
            neighbors: ChunkPlan::NONE,
        })
    }
}

impl<'a, A: Adapter<'a> + 'a> Adapter<'a> for BatchingAdapter<A> {
    type Vertex = A::Vertex;

    fn resolve_starting_vertices(
        &self,
        edge_name: &Arc<str>,
        parameters: &EdgeParameters,
        resolve_info: &ResolveInfo,
    ) -> VertexIterator<'a, Self::Vertex> {
        let plan = self.next_plan();
        let inner = self.inner.resolve_starting_vertices(edge_name, parameters, resolve_info);
        Box::new(Chunked::with_manners(inner, plan.output, self.stats.clone(), "start_out", self.polite))
    }

    fn resolve_property<V: AsVertex<Self::Vertex> + 'a>(
        &self,
        contexts: ContextIterator<'a, V>,
        type_name: &Arc<str>,
        property_name: &Arc<str>,
        resolve_info: &ResolveInfo,
    ) -> ContextOutcomeIterator<'a, V, FieldValue> {
        let plan = self.next_plan();
        let input: ContextIterator<'a, V> =
            Box::new(Chunked::with_manners(contexts, plan.input, self.stats.clone(), "property_in", self.polite));
        let inner = self.inner.resolve_property(input, type_name, property_name, resolve_info);
        Box::new(Chunked::with_manners(inner, plan.output, self.stats.clone(), "property_out", self.polite))
    }

    fn resolve_neighbors<V: AsVertex<Self::Vertex> + 'a>(
        &self,
        contexts: ContextIterator<'a, V>,
        type_name: &Arc<str>,
        edge_name: &Arc<str>,
        parameters: &EdgeParameters,
        resolve_info: &ResolveEdgeInfo,
    ) -> ContextOutcomeIterator<'a, V, VertexIterator<'a, Self::Vertex>> {
        let plan = self.next_plan();
        let input: ContextIterator<'a, V> =
            Box::new(Chunked::with_manners(contexts, plan.input, self.stats.clone(), "neighbors_in", self.polite));
        let inner = self.inner.resolve_neighbors(input, type_name, edge_name, parameters, resolve_info);
        let stats = self.stats.clone();
        let nplan = plan.neighbors;
        let polite = self.polite;
        let mapped = inner.map(move |(ctx, neighbors)| {
            let wrapped: VertexIterator<'a, A::Vertex> =
                Box::new(Chunked::with_manners(neighbors, nplan, stats.clone(), "neighbor_iter", polite));
            (ctx, wrapped)
        });
        Box::new(Chunked::with_manners(mapped, plan.output, self.stats.clone(), "neighbors_out", self.polite))
    }

    fn resolve_coercion<V: AsVertex<Self::Vertex> + 'a>(
        &self,
        contexts: ContextIterator<'a, V>,
        type_name: &Arc<str>,
        coerce_to_type: &Arc<str>,
        resolve_info: &ResolveInfo,
    ) -> ContextOutcomeIterator<'a, V, bool> {
        let plan = self.next_plan();
        let input: ContextIterator<'a, V> =
            Box::new(Chunked::with_manners(contexts, plan.input, self.stats.clone(), "coercion_in", self.polite));
        let inner = self.inner.resolve_coercion(input, type_name, coerce_to_type, resolve_info);
        Box::new(Chunked::with_manners(inner, plan.output, self.stats.clone(), "coercion_out", self.polite))
    }
}

// ---------------------------------------------------------------------------------------------
// counting (laziness)

#[derive(Default, Debug)]
pub struct Counters {
    /// starting vertices pulled from the adapter's starting-vertex iterator
    pub starts_pulled: Cell<u64>,
    /// contexts pulled by / neighbour vertices pulled from any other resolver
    pub other_pulls: Cell<u64>,
    /// resolver calls (setup only, no data access)
    pub calls: Cell<u64>,
}

impl Counters {
    pub fn snapshot(&self) -> (u64, u64) {
        (self.starts_pulled.get(), self.other_pulls.get())
    }
}

pub struct CountingAdapter<A> {
    pub inner: A,
    pub counters: Rc<Counters>,
}

impl<A> CountingAdapter<A> {
    pub fn new(inner: A) -> (Self, Rc<Counters>) {
        let counters = Rc::new(Counters::default());
        (Self { inner, counters: counters.clone() }, counters)
    }
}

impl<'a, A: Adapter<'a, Vertex = GV> + 'a> Adapter<'a> for CountingAdapter<A> {
    type Vertex = GV;

    fn resolve_starting_vertices(
        &self,
        edge_name: &Arc<str>,
        parameters: &EdgeParameters,
        resolve_info: &ResolveInfo,
    ) -> VertexIterator<'a, Self::Vertex> {
        self.counters.calls.set(self.counters.calls.get() + 1);
        let c = self.counters.clone();
        let inner = self.inner.resolve_starting_vertices(edge_name, parameters, resolve_info);
        Box::new(inner.inspect(move |_| c.starts_pulled.set(c.starts_pulled.get() + 1)))
    }

    fn resolve_property<V: AsVertex<Self::Vertex> + 'a>(
        &self,
        contexts: ContextIterator<'a, V>,
        type_name: &Arc<str>,
        property_name: &Arc<str>,
        resolve_info: &ResolveInfo,
    ) -> ContextOutcomeIterator<'a, V, FieldValue> {
        self.counters.calls.set(self.counters.calls.get() + 1);
        let c = self.counters.clone();
        let input: ContextIterator<'a, V> =
            Box::new(contexts.inspect(move |_| c.other_pulls.set(c.other_pulls.get() + 1)));
        self.inner.resolve_property(input, type_name, property_name, resolve_info)
    }

    fn resolve_neighbors<V: AsVertex<Self::Vertex> + 'a>(
        &self,
        contexts: ContextIterator<'a, V>,
        type_name: &Arc<str>,
        edge_name: &Arc<str>,
        parameters: &EdgeParameters,
        resolve_info: &ResolveEdgeInfo,
    ) -> ContextOutcomeIterator<'a, V, VertexIterator<'a, Self::Vertex>> {
        self.counters.calls.set(self.counters.calls.get() + 1);
        let c = self.counters.clone();
        let c2 = self.counters.clone();
        let input: ContextIterator<'a, V> =
            Box::new(contexts.inspect(move |_| c.other_pulls.set(c.other_pulls.get() + 1)));
        let inner = self.inner.resolve_neighbors(input, type_name, edge_name, parameters, resolve_info);
        Box::new(inner.map(move |(ctx, neighbors)| {
            let c3 = c2.clone();
            let wrapped: VertexIterator<'a, GV> =
                Box::new(neighbors.inspect(move |_| c3.other_pulls.set(c3.other_pulls.get() + 1)));
            (ctx, wrapped)
        }))
    }

    fn resolve_coercion<V: AsVertex<Self::Vertex> + 'a>(
        &self,
        contexts: ContextIterator<'a, V>,
        type_name: &Arc<str>,
        coerce_to_type: &Arc<str>,
        resolve_info: &ResolveInfo,
    ) -> ContextOutcomeIterator<'a, V, bool> {
        self.counters.calls.set(self.counters.calls.get() + 1);
        let c = self.counters.clone();
        let input: ContextIterator<'a, V> =
            Box::new(contexts.inspect(move |_| c.other_pulls.set(c.other_pulls.get() + 1)));
        self.inner.resolve_coercion(input, type_name, coerce_to_type, resolve_info)
    }
}

// ---------------------------------------------------------------------------------------------
// work budget (harness protection, not an oracle)

/// Shared pull budget: once it is used up every iterator handed to or received from the inner adapter ends early
/// and `exhausted` is set; the caller must then discard the case (the truncated result means nothing).
#[derive(Debug)]
pub struct Budget {
    left: Cell<u64>,
    exhausted: Cell<bool>,
}

impl Budget {
    pub fn new(pulls: u64) -> Rc<Self> {
        Rc::new(Self { left: Cell::new(pulls), exhausted: Cell::new(false) })
    }
    pub fn exhausted(&self) -> bool {
        self.exhausted.get()
    }
    fn take(&self) -> bool {
        let l = self.left.get();
        if l == 0 {
            self.exhausted.set(true);
            false
        } else {
            self.left.set(l - 1);
            true
        }
    }
}

pub struct BudgetAdapter<A> {
    pub inner: A,
    pub budget: Rc<Budget>,
}

impl<A> BudgetAdapter<A> {
    pub fn new(inner: A, pulls: u64) -> (Self, Rc<Budget>) {
        let budget = Budget::new(pulls);
        (Self { inner, budget: budget.clone() }, budget)
    }
}

impl<'a, A: Adapter<'a, Vertex = GV> + 'a> Adapter<'a> for BudgetAdapter<A> {
    type Vertex = GV;

    fn resolve_starting_vertices(
        &self,
        edge_name: &Arc<str>,
        parameters: &EdgeParameters,
        resolve_info: &ResolveInfo,
    ) -> VertexIterator<'a, Self::Vertex> {
        let b = self.budget.clone();
        let inner = self.inner.resolve_starting_vertices(edge_name, parameters, resolve_info);
        Box::new(inner.take_while(move |_| b.take()))
    }

    fn resolve_property<V: AsVertex<Self::Vertex> + 'a>(
        &self,
        contexts: ContextIterator<'a, V>,
        type_name: &Arc<str>,
        property_name: &Arc<str>,
        resolve_info: &ResolveInfo,
    ) -> ContextOutcomeIterator<'a, V, FieldValue> {
        let b = self.budget.clone();
        let input: ContextIterator<'a, V> = Box::new(contexts.take_while(move |_| b.take()));
        self.inner.resolve_property(input, type_name, property_name, resolve_info)
    }

    fn resolve_neighbors<V: AsVertex<Self::Vertex> + 'a>(
        &self,
        contexts: ContextIterator<'a, V>,
        type_name: &Arc<str>,
        edge_name: &Arc<str>,
        parameters: &EdgeParameters,
        resolve_info: &ResolveEdgeInfo,
    ) -> ContextOutcomeIterator<'a, V, VertexIterator<'a, Self::Vertex>> {
        let b = self.budget.clone();
        let b2 = self.budget.clone();
        let input: ContextIterator<'a, V> = Box::new(contexts.take_while(move |_| b.take()));
        let inner = self.inner.resolve_neighbors(input, type_name, edge_name, parameters, resolve_info);
        Box::new(inner.map(move |(ctx, neighbors)| {
            let b3 = b2.clone();
            let wrapped: VertexIterator<'a, GV> = Box::new(neighbors.take_while(move |_| b3.take()));
            (ctx, wrapped)
        }))
    }

    fn resolve_coercion<V: AsVertex<Self::Vertex> + 'a>(
        &self,
        contexts: ContextIterator<'a, V>,
        type_name: &Arc<str>,
        coerce_to_type: &Arc<str>,
        resolve_info: &ResolveInfo,
    ) -> ContextOutcomeIterator<'a, V, bool> {
        let b = self.budget.clone();
        let input: ContextIterator<'a, V> = Box::new(contexts.take_while(move |_| b.take()));
        self.inner.resolve_coercion(input, type_name, coerce_to_type, resolve_info)
    }
}
