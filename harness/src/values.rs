//! Harness-side value and type model, written from the language documentation,
//! sharing no code with the engine's `FieldValue` / `Type` implementations.

use std::{cmp::Ordering, fmt::Write as _, sync::Arc};

use trustfall_core::ir::FieldValue;

#[derive(Clone, Debug)]
pub enum Value {
    Null,
    /// `unsigned` is only an *encoding preference* (Uint64 rather than Int64 when both fit);
    /// it never takes part in comparisons.
    Int { v: i128, unsigned: bool },
    Float(f64),
    Str(String),
    Bool(bool),
    List(Vec<Value>),
}

impl Value {
    pub fn int(v: i128) -> Value {
        Value::Int { v, unsigned: false }
    }
    pub fn uint(v: i128) -> Value {
        Value::Int { v, unsigned: true }
    }
    pub fn str(s: &str) -> Value {
        Value::Str(s.to_string())
    }
    pub fn is_null(&self) -> bool {
        matches!(self, Value::Null)
    }

    pub fn to_field_value(&self) -> FieldValue {
        match self {
            Value::Null => FieldValue::Null,
            Value::Int { v, unsigned } => {
                if *v < 0 {
                    FieldValue::Int64(*v as i64)
                } else if *v > i64::MAX as i128 {
                    FieldValue::Uint64(*v as u64)
                } else if *unsigned {
                    FieldValue::Uint64(*v as u64)
                } else {
                    FieldValue::Int64(*v as i64)
                }
            }
            Value::Float(f) => FieldValue::Float64(*f),
            Value::Str(s) => FieldValue::String(Arc::from(s.as_str())),
            Value::Bool(b) => FieldValue::Boolean(*b),
            Value::List(l) => {
                FieldValue::List(l.iter().map(|x| x.to_field_value()).collect::<Vec<_>>().into())
            }
        }
    }

    pub fn from_field_value(v: &FieldValue) -> Value {
        match v {
            FieldValue::Null => Value::Null,
            FieldValue::Int64(i) => Value::Int { v: *i as i128, unsigned: false },
            FieldValue::Uint64(u) => Value::Int { v: *u as i128, unsigned: true },
            FieldValue::Float64(f) => Value::Float(*f),
            FieldValue::String(s) => Value::Str(s.to_string()),
            FieldValue::Boolean(b) => Value::Bool(*b),
            FieldValue::Enum(e) => Value::Str(format!("<enum {e}>")),
            FieldValue::List(l) => Value::List(l.iter().map(Value::from_field_value).collect()),
            _ => Value::Str("<unknown variant>".into()),
        }
    }

    /// Canonical text: numeric for ints (encoding-independent), bit-exact for floats except -0.0 == 0.0.
    pub fn canon(&self) -> String {
        let mut s = String::new();
        self.canon_into(&mut s);
        s
    }
    fn canon_into(&self, out: &mut String) {
        match self {
            Value::Null => out.push_str("null"),
            Value::Int { v, .. } => {
                let _ = write!(out, "{v}");
            }
            Value::Float(f) => {
                let f = if *f == 0.0 { 0.0 } else { *f };
                let _ = write!(out, "f{:?}", f);
            }
            Value::Str(s) => {
                let _ = write!(out, "{s:?}");
            }
            Value::Bool(b) => {
                let _ = write!(out, "{b}");
            }
            Value::List(l) => {
                out.push('[');
                for (i, x) in l.iter().enumerate() {
                    if i > 0 {
                        out.push(',');
                    }
                    x.canon_into(out);
                }
                out.push(']');
            }
        }
    }

    pub fn to_json(&self) -> serde_json::Value {
        match self {
            Value::Null => serde_json::Value::Null,
            Value::Int { v, unsigned } => {
                if *unsigned {
                    serde_json::json!({ "u": v.to_string() })
                } else if let Ok(i) = i64::try_from(*v) {
                    serde_json::json!(i)
                } else {
                    serde_json::json!({ "u": v.to_string() })
                }
            }
            Value::Float(f) => serde_json::json!({ "f": format!("{f:?}") }),
            Value::Str(s) => serde_json::json!(s),
            Value::Bool(b) => serde_json::json!(b),
            Value::List(l) => serde_json::Value::Array(l.iter().map(|x| x.to_json()).collect()),
        }
    }

    /// GraphQL literal (for edge arguments written in query text and schema defaults).
    pub fn to_graphql(&self) -> String {
        match self {
            Value::Null => "null".into(),
            Value::Int { v, .. } => format!("{v}"),
            Value::Float(f) => {
                let s = format!("{f:?}");
                s
            }
            Value::Str(s) => format!("{s:?}"),
            Value::Bool(b) => format!("{b}"),
            Value::List(l) => {
                format!("[{}]", l.iter().map(|x| x.to_graphql()).collect::<Vec<_>>().join(", "))
            }
        }
    }
}

/// Null-safe structural equality with numeric integers (filter.md "Equality operators").
pub fn eq(a: &Value, b: &Value) -> bool {
    match (a, b) {
        (Value::Null, Value::Null) => true,
        (Value::Int { v: x, .. }, Value::Int { v: y, .. }) => x == y,
        (Value::Float(x), Value::Float(y)) => x == y,
        (Value::Str(x), Value::Str(y)) => x == y,
        (Value::Bool(x), Value::Bool(y)) => x == y,
        (Value::List(x), Value::List(y)) => {
            x.len() == y.len() && x.iter().zip(y.iter()).all(|(p, q)| eq(p, q))
        }
        _ => false,
    }
}

impl PartialEq for Value {
    fn eq(&self, other: &Self) -> bool {
        eq(self, other)
    }
}

/// Ordering of two non-null scalars of the same kind; None when not comparable (incl. nulls, lists).
pub fn cmp_scalar(a: &Value, b: &Value) -> Option<Ordering> {
    match (a, b) {
        (Value::Int { v: x, .. }, Value::Int { v: y, .. }) => Some(x.cmp(y)),
        (Value::Float(x), Value::Float(y)) => x.partial_cmp(y),
        (Value::Str(x), Value::Str(y)) => Some(x.as_bytes().cmp(y.as_bytes())),
        _ => None,
    }
}

#[derive(Clone, Copy, Debug, PartialEq, Eq, Hash, PartialOrd, Ord)]
pub enum Op {
    IsNull,
    IsNotNull,
    Eq,
    Ne,
    Lt,
    Le,
    Gt,
    Ge,
    Contains,
    NotContains,
    OneOf,
    NotOneOf,
    HasPrefix,
    NotHasPrefix,
    HasSuffix,
    NotHasSuffix,
    HasSubstring,
    NotHasSubstring,
    Regex,
    NotRegex,
}

pub const ALL_OPS: [Op; 20] = [
    Op::IsNull,
    Op::IsNotNull,
    Op::Eq,
    Op::Ne,
    Op::Lt,
    Op::Le,
    Op::Gt,
    Op::Ge,
    Op::Contains,
    Op::NotContains,
    Op::OneOf,
    Op::NotOneOf,
    Op::HasPrefix,
    Op::NotHasPrefix,
    Op::HasSuffix,
    Op::NotHasSuffix,
    Op::HasSubstring,
    Op::NotHasSubstring,
    Op::Regex,
    Op::NotRegex,
];

impl Op {
    pub fn name(self) -> &'static str {
        match self {
            Op::IsNull => "is_null",
            Op::IsNotNull => "is_not_null",
            Op::Eq => "=",
            Op::Ne => "!=",
            Op::Lt => "<",
            Op::Le => "<=",
            Op::Gt => ">",
            Op::Ge => ">=",
            Op::Contains => "contains",
            Op::NotContains => "not_contains",
            Op::OneOf => "one_of",
            Op::NotOneOf => "not_one_of",
            Op::HasPrefix => "has_prefix",
            Op::NotHasPrefix => "not_has_prefix",
            Op::HasSuffix => "has_suffix",
            Op::NotHasSuffix => "not_has_suffix",
            Op::HasSubstring => "has_substring",
            Op::NotHasSubstring => "not_has_substring",
            Op::Regex => "regex",
            Op::NotRegex => "not_regex",
        }
    }
    pub fn is_unary(self) -> bool {
        matches!(self, Op::IsNull | Op::IsNotNull)
    }
    pub fn is_ordering(self) -> bool {
        matches!(self, Op::Lt | Op::Le | Op::Gt | Op::Ge)
    }
    pub fn is_string_op(self) -> bool {
        matches!(
            self,
            Op::HasPrefix
                | Op::NotHasPrefix
                | Op::HasSuffix
                | Op::NotHasSuffix
                | Op::HasSubstring
                | Op::NotHasSubstring
                | Op::Regex
                | Op::NotRegex
        )
    }
    /// The documented negation, where one exists.
    pub fn negation(self) -> Option<Op> {
        Some(match self {
            Op::IsNull => Op::IsNotNull,
            Op::IsNotNull => Op::IsNull,
            Op::Eq => Op::Ne,
            Op::Ne => Op::Eq,
            Op::Contains => Op::NotContains,
            Op::NotContains => Op::Contains,
            Op::OneOf => Op::NotOneOf,
            Op::NotOneOf => Op::OneOf,
            Op::HasPrefix => Op::NotHasPrefix,
            Op::NotHasPrefix => Op::HasPrefix,
            Op::HasSuffix => Op::NotHasSuffix,
            Op::NotHasSuffix => Op::HasSuffix,
            Op::HasSubstring => Op::NotHasSubstring,
            Op::NotHasSubstring => Op::HasSubstring,
            Op::Regex => Op::NotRegex,
            Op::NotRegex => Op::Regex,
            Op::Lt | Op::Le | Op::Gt | Op::Ge => return None,
        })
    }
}

/// Reference filter semantics: `left <op> right` (right ignored for unary operators).
/// Returns None when the operand kinds are outside what the frontend admits for that operator
/// (the caller must never generate those).
pub fn apply_op(op: Op, left: &Value, right: &Value) -> Option<bool> {
    Some(match op {
        Op::IsNull => left.is_null(),
        Op::IsNotNull => !left.is_null(),
        Op::Eq => eq(left, right),
        Op::Ne => !eq(left, right),
        Op::Lt | Op::Le | Op::Gt | Op::Ge => {
            if left.is_null() || right.is_null() {
                false
            } else {
                let ord = cmp_scalar(left, right)?;
                match op {
                    Op::Lt => ord == Ordering::Less,
                    Op::Le => ord != Ordering::Greater,
                    Op::Gt => ord == Ordering::Greater,
                    Op::Ge => ord != Ordering::Less,
                    _ => unreachable!(),
                }
            }
        }
        Op::OneOf | Op::NotOneOf => {
            let pos = match right {
                Value::Null => false,
                Value::List(l) => l.iter().any(|x| eq(left, x)),
                _ => return None,
            };
            if op == Op::OneOf { pos } else { !pos }
        }
        Op::Contains | Op::NotContains => {
            let pos = match left {
                Value::Null => false,
                Value::List(l) => l.iter().any(|x| eq(x, right)),
                _ => return None,
            };
            if op == Op::Contains { pos } else { !pos }
        }
        Op::HasPrefix | Op::NotHasPrefix | Op::HasSuffix | Op::NotHasSuffix | Op::HasSubstring
        | Op::NotHasSubstring | Op::Regex | Op::NotRegex => {
            let pos = match (left, right) {
                (Value::Str(l), Value::Str(r)) => match op {
                    Op::HasPrefix | Op::NotHasPrefix => {
                        let lc: Vec<char> = l.chars().collect();
                        let rc: Vec<char> = r.chars().collect();
                        lc.len() >= rc.len() && lc[..rc.len()] == rc[..]
                    }
                    Op::HasSuffix | Op::NotHasSuffix => {
                        let lc: Vec<char> = l.chars().collect();
                        let rc: Vec<char> = r.chars().collect();
                        lc.len() >= rc.len() && lc[lc.len() - rc.len()..] == rc[..]
                    }
                    Op::HasSubstring | Op::NotHasSubstring => {
                        let lc: Vec<char> = l.chars().collect();
                        let rc: Vec<char> = r.chars().collect();
                        if rc.is_empty() {
                            true
                        } else {
                            lc.windows(rc.len()).any(|w| w == &rc[..])
                        }
                    }
                    Op::Regex | Op::NotRegex => match mini_regex::compile(r) {
                        // an invalid pattern never matches (only reachable through tags)
                        None => false,
                        Some(re) => mini_regex::is_match(&re, l),
                    },
                    _ => unreachable!(),
                },
                (Value::Null, Value::Str(_)) | (Value::Str(_), Value::Null) | (Value::Null, Value::Null) => {
                    false
                }
                _ => return None,
            };
            match op {
                Op::HasPrefix | Op::HasSuffix | Op::HasSubstring | Op::Regex => pos,
                _ => !pos,
            }
        }
    })
}

/// A tiny backtracking regex engine over a restricted grammar:
/// literals, `.`, `[abc]`, `[^abc]`, `[a-c]`, postfix `* + ?`, groups `( )`, alternation `|`, anchors `^ $`.
/// Patterns outside the grammar compile to `None` (treated as invalid). Unanchored search semantics.
pub mod mini_regex {
    #[derive(Clone, Debug)]
    pub enum Node {
        Char(char),
        Any,
        Class { neg: bool, items: Vec<(char, char)> },
        Start,
        End,
        Group(Box<Alt>),
        Repeat { node: Box<Node>, min: usize, max: Option<usize> },
    }
    pub type Seq = Vec<Node>;
    #[derive(Clone, Debug)]
    pub struct Alt(pub Vec<Seq>);

    pub fn compile(p: &str) -> Option<Alt> {
        let chars: Vec<char> = p.chars().collect();
        let mut pos = 0;
        let alt = parse_alt(&chars, &mut pos, 0)?;
        if pos != chars.len() {
            return None;
        }
        Some(alt)
    }

    fn parse_alt(c: &[char], pos: &mut usize, depth: usize) -> Option<Alt> {
        let mut alts = vec![];
        loop {
            let seq = parse_seq(c, pos, depth)?;
            alts.push(seq);
            if *pos < c.len() && c[*pos] == '|' {
                *pos += 1;
            } else {
                break;
            }
        }
        Some(Alt(alts))
    }

    fn parse_seq(c: &[char], pos: &mut usize, depth: usize) -> Option<Seq> {
        let mut seq = vec![];
        while *pos < c.len() {
            let ch = c[*pos];
            let atom = match ch {
                '|' => break,
                ')' => {
                    if depth == 0 {
                        return None;
                    }
                    break;
                }
                '(' => {
                    *pos += 1;
                    let inner = parse_alt(c, pos, depth + 1)?;
                    if *pos >= c.len() || c[*pos] != ')' {
                        return None;
                    }
                    *pos += 1;
                    Node::Group(Box::new(inner))
                }
                '[' => {
                    *pos += 1;
                    let mut neg = false;
                    if *pos < c.len() && c[*pos] == '^' {
                        neg = true;
                        *pos += 1;
                    }
                    let mut items = vec![];
                    loop {
                        if *pos >= c.len() {
                            return None;
                        }
                        let x = c[*pos];
                        if x == ']' {
                            if items.is_empty() {
                                return None;
                            }
                            *pos += 1;
                            break;
                        }
                        if !x.is_ascii_alphanumeric() {
                            return None;
                        }
                        *pos += 1;
                        if *pos + 1 < c.len() && c[*pos] == '-' && c[*pos + 1] != ']' {
                            let y = c[*pos + 1];
                            if !y.is_ascii_alphanumeric() || y < x {
                                return None;
                            }
                            *pos += 2;
                            items.push((x, y));
                        } else {
                            items.push((x, x));
                        }
                    }
                    Node::Class { neg, items }
                }
                '.' => {
                    *pos += 1;
                    Node::Any
                }
                '^' => {
                    *pos += 1;
                    Node::Start
                }
                '$' => {
                    *pos += 1;
                    Node::End
                }
                '*' | '+' | '?' | ']' | '{' | '}' | '\\' => return None,
                _ => {
                    *pos += 1;
                    Node::Char(ch)
                }
            };
            // postfix
            let mut node = atom;
            if *pos < c.len() {
                let (min, max) = match c[*pos] {
                    '*' => (0, None),
                    '+' => (1, None),
                    '?' => (0, Some(1)),
                    _ => (usize::MAX, None),
                };
                if min != usize::MAX {
                    if matches!(node, Node::Start | Node::End) {
                        return None;
                    }
                    *pos += 1;
                    // no stacked quantifiers in the restricted grammar
                    if *pos < c.len() && matches!(c[*pos], '*' | '+' | '?') {
                        return None;
                    }
                    node = Node::Repeat { node: Box::new(node), min, max };
                }
            }
            seq.push(node);
        }
        Some(seq)
    }

    pub fn is_match(re: &Alt, text: &str) -> bool {
        let t: Vec<char> = text.chars().collect();
        for start in 0..=t.len() {
            if match_alt(re, &t, start, &mut |_| true) {
                return true;
            }
        }
        false
    }

    fn match_alt(alt: &Alt, t: &[char], i: usize, k: &mut dyn FnMut(usize) -> bool) -> bool {
        for seq in &alt.0 {
            if match_seq(seq, t, i, k) {
                return true;
            }
        }
        false
    }

    fn match_seq(seq: &[Node], t: &[char], i: usize, k: &mut dyn FnMut(usize) -> bool) -> bool {
        match seq.split_first() {
            None => k(i),
            Some((first, rest)) => match_node(first, t, i, &mut |j| match_seq(rest, t, j, k)),
        }
    }

    fn match_node(n: &Node, t: &[char], i: usize, k: &mut dyn FnMut(usize) -> bool) -> bool {
        match n {
            Node::Char(c) => i < t.len() && t[i] == *c && k(i + 1),
            Node::Any => i < t.len() && t[i] != '\n' && k(i + 1),
            Node::Class { neg, items } => {
                if i >= t.len() {
                    return false;
                }
                let inside = items.iter().any(|(a, b)| *a <= t[i] && t[i] <= *b);
                (inside != *neg) && k(i + 1)
            }
            Node::Start => i == 0 && k(i),
            Node::End => i == t.len() && k(i),
            Node::Group(alt) => match_alt(alt, t, i, k),
            Node::Repeat { node, min, max } => match_repeat(node, *min, *max, t, i, 0, k),
        }
    }

    fn match_repeat(
        node: &Node,
        min: usize,
        max: Option<usize>,
        t: &[char],
        i: usize,
        count: usize,
        k: &mut dyn FnMut(usize) -> bool,
    ) -> bool {
        // greedy, with a progress guard against empty iterations
        if max.map(|m| count < m).unwrap_or(true) {
            let mut cont = |j: usize| -> bool {
                if j == i {
                    return false;
                }
                match_repeat(node, min, max, t, j, count + 1, k)
            };
            if match_node(node, t, i, &mut cont) {
                return true;
            }
        }
        count >= min && k(i)
    }
}

/// Harness-side type: `nulls[0]` is the outermost layer's nullability, the last entry belongs to the
/// named base type; list depth is `nulls.len() - 1`.
#[derive(Clone, Debug, PartialEq, Eq, Hash, PartialOrd, Ord)]
pub struct Ty {
    pub base: String,
    pub nulls: Vec<bool>,
}

impl Ty {
    pub fn named(base: &str, nullable: bool) -> Ty {
        Ty { base: base.to_string(), nulls: vec![nullable] }
    }
    pub fn depth(&self) -> usize {
        self.nulls.len() - 1
    }
    pub fn is_list(&self) -> bool {
        self.nulls.len() > 1
    }
    pub fn nullable(&self) -> bool {
        self.nulls[0]
    }
    pub fn with_nullable(&self, n: bool) -> Ty {
        let mut t = self.clone();
        t.nulls[0] = n;
        t
    }
    pub fn list_of(inner: &Ty, nullable: bool) -> Ty {
        let mut nulls = vec![nullable];
        nulls.extend(inner.nulls.iter().copied());
        Ty { base: inner.base.clone(), nulls }
    }
    pub fn elem(&self) -> Option<Ty> {
        if self.is_list() {
            Some(Ty { base: self.base.clone(), nulls: self.nulls[1..].to_vec() })
        } else {
            None
        }
    }
    pub fn render(&self) -> String {
        fn go(t: &Ty, i: usize, out: &mut String) {
            if i + 1 == t.nulls.len() {
                out.push_str(&t.base);
            } else {
                out.push('[');
                go(t, i + 1, out);
                out.push(']');
            }
            if !t.nulls[i] {
                out.push('!');
            }
        }
        let mut s = String::new();
        go(self, 0, &mut s);
        s
    }
    pub fn parse(s: &str) -> Option<Ty> {
        let c: Vec<char> = s.chars().collect();
        fn go(c: &[char], pos: &mut usize) -> Option<(String, Vec<bool>)> {
            if *pos < c.len() && c[*pos] == '[' {
                *pos += 1;
                let (base, mut inner) = go(c, pos)?;
                if *pos >= c.len() || c[*pos] != ']' {
                    return None;
                }
                *pos += 1;
                let mut nullable = true;
                if *pos < c.len() && c[*pos] == '!' {
                    nullable = false;
                    *pos += 1;
                }
                let mut nulls = vec![nullable];
                nulls.append(&mut inner);
                Some((base, nulls))
            } else {
                let start = *pos;
                while *pos < c.len() && (c[*pos].is_ascii_alphanumeric() || c[*pos] == '_') {
                    *pos += 1;
                }
                if *pos == start {
                    return None;
                }
                let base: String = c[start..*pos].iter().collect();
                let mut nullable = true;
                if *pos < c.len() && c[*pos] == '!' {
                    nullable = false;
                    *pos += 1;
                }
                Some((base, vec![nullable]))
            }
        }
        let mut pos = 0;
        let (base, nulls) = go(&c, &mut pos)?;
        if pos != c.len() {
            return None;
        }
        Some(Ty { base, nulls })
    }

    pub fn same_shape(&self, other: &Ty) -> bool {
        self.base == other.base && self.nulls.len() == other.nulls.len()
    }

    /// `self` is a subtype of `sup`: same shape and wherever `sup` is non-null so is `self`.
    pub fn is_subtype_of(&self, sup: &Ty) -> bool {
        self.same_shape(sup) && self.nulls.iter().zip(sup.nulls.iter()).all(|(s, p)| *p || !*s)
    }

    pub fn intersect(&self, other: &Ty) -> Option<Ty> {
        if !self.same_shape(other) {
            return None;
        }
        Some(Ty {
            base: self.base.clone(),
            nulls: self.nulls.iter().zip(other.nulls.iter()).map(|(a, b)| *a && *b).collect(),
        })
    }

    /// Is `v` a valid value of this type (scalars: Int, Float, String, Boolean only).
    pub fn valid(&self, v: &Value) -> bool {
        self.valid_at(0, v)
    }
    fn valid_at(&self, level: usize, v: &Value) -> bool {
        let last = level + 1 == self.nulls.len();
        match v {
            Value::Null => self.nulls[level],
            Value::List(items) => !last && items.iter().all(|x| self.valid_at(level + 1, x)),
            Value::Int { v, .. } => {
                last && self.base == "Int" && *v >= i64::MIN as i128 && *v <= u64::MAX as i128
            }
            Value::Float(f) => last && self.base == "Float" && f.is_finite(),
            Value::Str(_) => last && self.base == "String",
            Value::Bool(_) => last && self.base == "Boolean",
        }
    }
}

#[cfg(test)]
mod tests {
    use super::*;

    #[test]
    fn ty_roundtrip() {
        for s in ["Int", "Int!", "[Int]", "[Int!]!", "[[String]!]", "[[Float!]]!"] {
            assert_eq!(Ty::parse(s).unwrap().render(), s);
        }
    }

    #[test]
    fn mini_regex_basics() {
        let m = |p: &str, t: &str| mini_regex::is_match(&mini_regex::compile(p).unwrap(), t);
        assert!(m("a.c", "xxabcxx"));
        assert!(!m("^a.c$", "xabc"));
        assert!(m("^a*b+$", "aaabbb"));
        assert!(m("(ab|c)+d", "abcabd"));
        assert!(m("[a-c]?x", "x"));
        assert!(!m("[^a]", "aaa"));
        assert!(m("", "anything"));
        assert!(mini_regex::compile("a**").is_none());
        assert!(mini_regex::compile("(").is_none());
        assert!(mini_regex::compile("[").is_none());
    }
}
