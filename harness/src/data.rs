//! Datasets conforming to a schema AST, their generator, and edge-parameter semantics.

use std::collections::BTreeMap;

use crate::choice::Choices;
use crate::schema_ast::{ParamSem, SchemaDoc};
use crate::values::{self, Ty, Value};

#[derive(Clone, Debug, PartialEq)]
pub struct VertexData {
    pub ty: String,
    pub props: BTreeMap<String, Value>,
    /// edge name -> base neighbour ids (before parameter semantics)
    pub edges: BTreeMap<String, Vec<u32>>,
}

#[derive(Clone, Debug, PartialEq)]
pub struct Dataset {
    pub vertices: Vec<VertexData>,
    /// entrypoint name -> base vertex ids
    pub entry: BTreeMap<String, Vec<u32>>,
}

#[derive(Clone, Debug)]
pub struct World {
    pub schema: SchemaDoc,
    pub data: Dataset,
}

const INT_POOL: [i128; 6] = [-2, -1, 0, 1, 2, 3];
const INT_EXTREME: [i128; 5] =
    [i64::MIN as i128, i64::MAX as i128, i64::MAX as i128 + 1, u64::MAX as i128, i64::MIN as i128 + 1];
// ("(" is not a valid regular expression: a string property used as a tagged regex pattern can be invalid)
const STR_POOL: [&str; 9] = ["", "a", "ab", "abc", "b", "ä", "a.c", "ba", "("];
const FLOAT_POOL: [f64; 5] = [-1.5, 0.0, 2.5, 1e300, -0.0];

pub fn gen_scalar(c: &mut Choices<'_>, base: &str) -> Value {
    match base {
        "Int" => {
            if c.chance(24) {
                let v = *c.pick(&INT_EXTREME);
                Value::Int { v, unsigned: c.chance(128) }
            } else {
                let v = *c.pick(&INT_POOL);
                Value::Int { v, unsigned: c.chance(90) }
            }
        }
        "Float" => Value::Float(*c.pick(&FLOAT_POOL)),
        "String" => Value::str(STR_POOL[c.below(STR_POOL.len())]),
        "Boolean" => Value::Bool(c.chance(128)),
        other => panic!("HARNESS: no generator for base type {other}"),
    }
}

/// A value valid for `ty` (by construction), drawn from small colliding pools.
pub fn gen_value_of_type(c: &mut Choices<'_>, ty: &Ty, level: usize) -> Value {
    if ty.nulls[level] && c.chance(50) {
        return Value::Null;
    }
    if level + 1 == ty.nulls.len() {
        gen_scalar(c, &ty.base)
    } else {
        let n = c.below(4);
        Value::List((0..n).map(|_| gen_value_of_type(c, ty, level + 1)).collect())
    }
}

#[derive(Clone, Debug)]
pub struct DataGenConfig {
    pub max_vertices: usize,
    pub max_neighbors: usize,
}

impl Default for DataGenConfig {
    fn default() -> Self {
        Self { max_vertices: 10, max_neighbors: 4 }
    }
}

pub fn gen_dataset(c: &mut Choices<'_>, schema: &SchemaDoc, cfg: &DataGenConfig) -> Dataset {
    let concrete: Vec<String> = schema.concrete_types().iter().map(|t| t.name.clone()).collect();
    let mut vertices: Vec<VertexData> = vec![];
    if concrete.is_empty() {
        return Dataset { vertices, entry: BTreeMap::new() };
    }
    let n = 1 + c.below(cfg.max_vertices);
    for _ in 0..n {
        let ty = c.pick(&concrete).clone();
        let mut props = BTreeMap::new();
        for p in schema.properties(&ty) {
            props.insert(p.name.clone(), gen_value_of_type(c, &p.ty, 0));
        }
        vertices.push(VertexData { ty, props, edges: BTreeMap::new() });
    }
    // edges
    for i in 0..vertices.len() {
        let ty = vertices[i].ty.clone();
        for e in schema.edges(&ty) {
            let candidates: Vec<u32> = vertices
                .iter()
                .enumerate()
                .filter(|(_, v)| schema.is_subtype(&e.ty.base, &v.ty))
                .map(|(j, _)| j as u32)
                .collect();
            let list = pick_neighbors(c, &candidates, &e.ty, cfg.max_neighbors);
            vertices[i].edges.insert(e.name.clone(), list);
        }
    }
    let mut entry = BTreeMap::new();
    for e in schema.edges(&schema.root) {
        let candidates: Vec<u32> = vertices
            .iter()
            .enumerate()
            .filter(|(_, v)| schema.is_subtype(&e.ty.base, &v.ty))
            .map(|(j, _)| j as u32)
            .collect();
        // entrypoints: usually most matching vertices, in a generated order with possible repeats
        let mut list = vec![];
        if !candidates.is_empty() {
            let k = if e.ty.is_list() { c.below(candidates.len() + 2) + 1 } else { 1 };
            for _ in 0..k.min(8) {
                list.push(*c.pick(&candidates));
            }
            if !e.ty.is_list() && e.ty.nulls[0] && c.chance(40) {
                list.clear();
            }
        }
        entry.insert(e.name.clone(), list);
    }
    Dataset { vertices, entry }
}

fn pick_neighbors(c: &mut Choices<'_>, candidates: &[u32], ty: &Ty, max: usize) -> Vec<u32> {
    if candidates.is_empty() {
        return vec![];
    }
    if ty.is_list() {
        let k = c.below(max + 1);
        (0..k).map(|_| *c.pick(candidates)).collect()
    } else if ty.nulls[0] {
        if c.chance(150) { vec![*c.pick(candidates)] } else { vec![] }
    } else {
        vec![*c.pick(candidates)]
    }
}

impl World {
    pub fn vertex(&self, id: u32) -> &VertexData {
        &self.data.vertices[id as usize]
    }

    pub fn prop(&self, id: u32, name: &str) -> Value {
        if name == "__typename" {
            return Value::Str(self.vertex(id).ty.clone());
        }
        match self.vertex(id).props.get(name) {
            Some(v) => v.clone(),
            None => panic!(
                "HARNESS: property {name} requested on vertex {id} of type {} which lacks it",
                self.vertex(id).ty
            ),
        }
    }

    pub fn has_prop(&self, id: u32, name: &str) -> bool {
        name == "__typename" || self.vertex(id).props.contains_key(name)
    }

    /// Neighbours of `id` along `edge` under `params` (dataset semantics of parameterised edges).
    /// A vertex whose concrete type lacks the edge has no neighbours.
    pub fn neighbors(&self, id: u32, edge: &str, params: &BTreeMap<String, Value>) -> Vec<u32> {
        let Some(base) = self.vertex(id).edges.get(edge) else {
            return vec![];
        };
        self.apply_sem(edge, base, params)
    }

    pub fn entry_vertices(&self, entry: &str, params: &BTreeMap<String, Value>) -> Vec<u32> {
        let Some(base) = self.data.entry.get(entry) else {
            panic!("HARNESS: unknown entrypoint {entry}");
        };
        self.apply_sem(entry, base, params)
    }

    fn apply_sem(&self, edge: &str, base: &[u32], params: &BTreeMap<String, Value>) -> Vec<u32> {
        let sem = self.schema.sem.get(edge).cloned().unwrap_or(ParamSem::Ignore);
        match sem {
            ParamSem::Ignore => base.to_vec(),
            ParamSem::FilterEq { param, prop } => match params.get(&param) {
                None | Some(Value::Null) => base.to_vec(),
                Some(v) => base.iter().copied().filter(|n| values::eq(&self.prop(*n, &prop), v)).collect(),
            },
            ParamSem::Take { param } => match params.get(&param) {
                None | Some(Value::Null) => base.to_vec(),
                Some(Value::Int { v, .. }) => {
                    let k = (*v).clamp(0, base.len() as i128) as usize;
                    base[..k].to_vec()
                }
                Some(other) => panic!("HARNESS: take parameter has non-int value {other:?}"),
            },
            ParamSem::MinValue { param, prop } => match params.get(&param) {
                None | Some(Value::Null) => base.to_vec(),
                Some(v) => base
                    .iter()
                    .copied()
                    .filter(|n| values::apply_op(values::Op::Ge, &self.prop(*n, &prop), v).unwrap_or(false))
                    .collect(),
            },
            ParamSem::OneOfList { param, prop } => match params.get(&param) {
                None | Some(Value::Null) => base.to_vec(),
                Some(Value::List(items)) => base
                    .iter()
                    .copied()
                    .filter(|n| {
                        let pv = self.prop(*n, &prop);
                        items.iter().any(|x| values::eq(x, &pv))
                    })
                    .collect(),
                Some(other) => panic!("HARNESS: among parameter has non-list value {other:?}"),
            },
        }
    }

    pub fn to_json(&self) -> serde_json::Value {
        let verts: Vec<serde_json::Value> = self
            .data
            .vertices
            .iter()
            .enumerate()
            .map(|(i, v)| {
                serde_json::json!({
                    "id": i,
                    "type": v.ty,
                    "props": v.props.iter().map(|(k, x)| (k.clone(), x.to_json())).collect::<serde_json::Map<_, _>>(),
                    "edges": v.edges,
                })
            })
            .collect();
        serde_json::json!({
            "schema": self.schema.render(),
            "param_semantics": self.schema.sem.iter().map(|(k, v)| (k.clone(), format!("{v:?}"))).collect::<BTreeMap<_, _>>(),
            "vertices": verts,
            "entry": self.data.entry,
        })
    }
}
