//! tfv: property-based verification harness for trustfall (see /verif/DESIGN.md).
pub mod adapter;
pub mod checks;
pub mod choice;
pub mod data;
pub mod engine;
pub mod fuzzentry;
pub mod pruning;
pub mod query_ast;
pub mod reference;
pub mod runner;
pub mod schema_ast;
pub mod values;
pub mod worldcase;
pub mod wrappers;
