//! C24, static part: schemas and compiled queries can be sent to and shared between threads.
//!
//! Nothing here is executed for its result; the crate is the obligation: it compiles only while the
//! types below are `Send + Sync`, and `share()` only while references to them and `Arc`s of them may
//! cross a `std::thread::scope` / `std::thread::spawn` boundary.

use std::{collections::BTreeMap, sync::Arc};

use trustfall_core::{
    frontend::{self, error::FrontendError},
    interpreter::error::QueryArgumentsError,
    ir::{EdgeParameters, FieldValue, IRQuery, IndexedQuery, TransparentValue, Type},
    schema::{error::InvalidSchemaError, Schema},
};

fn assert_send_sync<T: Send + Sync>() {}
fn assert_send_sync_static<T: Send + Sync + 'static>() {}

fn static_bounds() {
    assert_send_sync_static::<Schema>();
    assert_send_sync_static::<Arc<Schema>>();
    assert_send_sync_static::<IndexedQuery>();
    assert_send_sync_static::<Arc<IndexedQuery>>();
    assert_send_sync_static::<IRQuery>();
    assert_send_sync_static::<Type>();
    assert_send_sync_static::<FieldValue>();
    assert_send_sync_static::<TransparentValue>();
    assert_send_sync_static::<EdgeParameters>();
    assert_send_sync_static::<Arc<BTreeMap<Arc<str>, FieldValue>>>();
    assert_send_sync_static::<FrontendError>();
    assert_send_sync_static::<InvalidSchemaError>();
    assert_send_sync_static::<QueryArgumentsError>();
    assert_send_sync::<&Schema>();
    assert_send_sync::<&IndexedQuery>();
}

const SDL: &str = r#"
schema { query: RootSchemaQuery }
directive @filter(op: String!, value: [String!]) repeatable on FIELD | INLINE_FRAGMENT
directive @tag(name: String) on FIELD
directive @output(name: String) on FIELD
directive @optional on FIELD
directive @recurse(depth: Int!) on FIELD
directive @fold on FIELD
directive @transform(op: String!) on FIELD
type RootSchemaQuery { Thing: [Thing!]! }
type Thing { name: String }
"#;

/// uses the values from other threads the way a parallel caller would
fn share() -> usize {
    let schema = Schema::parse(SDL).expect("schema");
    let query = frontend::parse(&schema, "{ Thing { name @output } }").expect("query");
    let mut n = 0;
    std::thread::scope(|scope| {
        let a = scope.spawn(|| frontend::parse(&schema, "{ Thing { name @output } }").is_ok() as usize);
        let b = scope.spawn(|| query.ir_query.variables.len() + query.outputs.len());
        n = a.join().unwrap() + b.join().unwrap();
    });
    let owned_schema = Arc::new(schema);
    let moved_query = query.clone();
    let h = std::thread::spawn(move || {
        let again = frontend::parse(&owned_schema, "{ Thing { name @output } }").expect("query");
        (again.ir_query == moved_query.ir_query) as usize
    });
    n + h.join().unwrap()
}

fn main() {
    static_bounds();
    println!("{}", share());
}
