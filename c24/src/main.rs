//! C24: schemas and compiled queries can be shared across threads.
//!
//! This crate only compiles if `Schema`, `IndexedQuery`, `IRQuery`, `Type`, `FieldValue` and `EdgeParameters`
//! are `Send + Sync` (the workers below receive them by reference / `Arc` inside `std::thread::scope`).
//! Dynamically, every thread's IR and rows must equal the sequential result.

use std::{
    collections::BTreeMap,
    sync::{Arc, Barrier, Mutex},
};

use proptest::{
    collection::vec,
    prelude::any,
    strategy::{Strategy, ValueTree},
    test_runner::{Config, RngSeed, TestRunner},
};
use serde_json::json;
use tfv::{
    adapter::GraphAdapter,
    checks::world::default_gen_config,
    choice::Choices,
    engine::{self, CompileOutcome, ExecOutcome},
    runner::{write_replay, CheckCtx, Evidence, Stats, Tier, Timer},
    worldcase::{decode_world_case, WorldCase},
};
use trustfall_core::{
    ir::{EdgeParameters, FieldValue, IRQuery, IndexedQuery, Type},
    schema::Schema,
};

fn assert_send_sync<T: Send + Sync>() {}

#[allow(dead_code)]
fn static_bounds() {
    assert_send_sync::<Schema>();
    assert_send_sync::<IndexedQuery>();
    assert_send_sync::<Arc<IndexedQuery>>();
    assert_send_sync::<IRQuery>();
    assert_send_sync::<Type>();
    assert_send_sync::<FieldValue>();
    assert_send_sync::<EdgeParameters>();
}

struct Job {
    case: WorldCase,
}

fn rows_of(case: &WorldCase, iq: Arc<IndexedQuery>) -> String {
    match engine::execute(Arc::new(GraphAdapter::new(case.world.clone())), iq, engine::args_to_engine(&case.args), 5000) {
        ExecOutcome::Rows(r) => format!("{r:?}"),
        ExecOutcome::ArgError(e) => format!("argerr:{e}"),
        ExecOutcome::Panic(p, n) => format!("panic:{} after {n}", p.message),
    }
}

fn compile_text(schema: &Schema, text: &str) -> (String, Option<Arc<IndexedQuery>>) {
    match engine::compile(schema, text) {
        CompileOutcome::Ok(iq) => (ron::to_string(&iq.ir_query).unwrap_or_default(), Some(iq)),
        CompileOutcome::Err(e) => (e, None),
        CompileOutcome::Panic(p) => (format!("panic:{}", p.message), None),
    }
}

fn main() {
    let args: Vec<String> = std::env::args().collect();
    let tier = if args.get(1).map(|s| s == "thorough").unwrap_or(false) { Tier::Thorough } else { Tier::Quick };
    let seed = std::env::var("VERIF_SEED").ok().and_then(|s| s.trim().parse::<i128>().ok()).map(|v| v as u64).unwrap_or(20260921);
    let process_index: u64 = args.get(2).and_then(|s| s.parse().ok()).unwrap_or(0);
    let batches: usize = args.get(3).and_then(|s| s.parse().ok()).unwrap_or(50);
    let ctx = CheckCtx { property: "C24".into(), tier, seed, replay: None, threads: 16, scale: 1.0 };
    engine::install_panic_hook();
    let timer = Timer::start();
    let cfg = default_gen_config();
    let config = Config { rng_seed: RngSeed::Fixed(seed ^ (process_index.wrapping_mul(0x9E37))), failure_persistence: None, ..Config::default() };
    let mut runner = TestRunner::new(config);
    let strategy = vec(any::<u8>(), 64usize..=700);
    let mut stats = Stats { want_samples: 3, ..Stats::default() };
    let mut violation: Option<(String, Vec<u8>)> = None;

    'batches: for _b in 0..batches {
        // one shared schema per batch: the first job's schema; several queries against it
        let seed_bytes = strategy.new_tree(&mut runner).expect("gen").current();
        let first = decode_world_case(&mut Choices::new(&seed_bytes), &cfg);
        let Ok(Ok(schema)) = engine::parse_schema(&first.sdl) else { continue };
        // more queries over the same world: re-decode with different tails (same schema/data prefix is not guaranteed,
        // so each job carries its own world but compiles against *its own* schema text re-parsed once per batch)
        let mut jobs: Vec<Job> = vec![Job { case: first }];
        for _ in 0..3 {
            let b = strategy.new_tree(&mut runner).expect("gen").current();
            jobs.push(Job { case: decode_world_case(&mut Choices::new(&b), &cfg) });
        }
        let schemas: Vec<Option<Schema>> = jobs
            .iter()
            .enumerate()
            .map(|(i, j)| if i == 0 { Some(schema.clone()) } else { engine::parse_schema(&j.case.sdl).ok().and_then(|r| r.ok()) })
            .collect();
        // sequential reference
        let mut expected: Vec<(String, String)> = vec![];
        let mut compiled: Vec<Option<Arc<IndexedQuery>>> = vec![];
        for (j, s) in jobs.iter().zip(schemas.iter()) {
            match s {
                None => {
                    expected.push((String::new(), String::new()));
                    compiled.push(None);
                }
                Some(s) => {
                    let (ir, iq) = compile_text(s, &j.case.query_text);
                    let rows = iq.as_ref().map(|iq| rows_of(&j.case, iq.clone())).unwrap_or_default();
                    expected.push((ir, rows));
                    compiled.push(iq);
                }
            }
        }
        stats.evaluations += 1;
        let n_threads = 2 + (stats.evaluations as usize % 15);
        let barrier = Barrier::new(n_threads);
        let mismatches: Mutex<Vec<String>> = Mutex::new(vec![]);
        let shared_exec = compiled.iter().filter(|c| c.is_some()).count();
        std::thread::scope(|scope| {
            for t in 0..n_threads {
                let jobs = &jobs;
                let schemas = &schemas;
                let compiled = &compiled;
                let expected = &expected;
                let barrier = &barrier;
                let mismatches = &mismatches;
                scope.spawn(move || {
                    barrier.wait();
                    for round in 0..3 {
                        for k in 0..jobs.len() {
                            let idx = (k + t + round) % jobs.len();
                            let Some(schema) = &schemas[idx] else { continue };
                            match (t + round) % 3 {
                                0 => {
                                    // compile against the shared &Schema
                                    let (ir, _) = compile_text(schema, &jobs[idx].case.query_text);
                                    if ir != expected[idx].0 {
                                        mismatches.lock().unwrap().push(format!("thread {t}: compile result of job {idx} differs from the sequential one"));
                                    }
                                }
                                1 => {
                                    // execute the shared Arc<IndexedQuery>
                                    if let Some(iq) = &compiled[idx] {
                                        let rows = rows_of(&jobs[idx].case, iq.clone());
                                        if rows != expected[idx].1 {
                                            mismatches.lock().unwrap().push(format!("thread {t}: rows of job {idx} differ from the sequential ones"));
                                        }
                                    }
                                }
                                _ => {
                                    let (ir, iq) = compile_text(schema, &jobs[idx].case.query_text);
                                    let rows = iq.map(|iq| rows_of(&jobs[idx].case, iq)).unwrap_or_default();
                                    if ir != expected[idx].0 || rows != expected[idx].1 {
                                        mismatches.lock().unwrap().push(format!("thread {t}: compile+execute of job {idx} differs from the sequential result"));
                                    }
                                }
                            }
                        }
                    }
                });
            }
        });
        if shared_exec >= 1 && n_threads >= 2 {
            let key = format!("{}{}", jobs[0].case.sdl, jobs[0].case.query_text);
            if stats.nontrivial(key.as_bytes()) {
                stats.sample(|| json!({"threads": n_threads, "jobs": jobs.iter().map(|j| j.case.query_text.clone()).collect::<Vec<_>>()}));
            }
        }
        let ms = mismatches.into_inner().unwrap();
        if let Some(m) = ms.first() {
            violation = Some((m.clone(), seed_bytes));
            break 'batches;
        }
    }
    let mut violations = 0;
    if let Some((msg, bytes)) = &violation {
        violations = 1;
        let path = write_replay("C24", "c24", bytes, "c24:concurrent-result-differs-from-sequential", msg, json!({"message": msg}));
        eprintln!("violation: {msg}");
        println!("VIOLATION property=C24 replay={}", path.display());
    }
    // each process writes its own partial evidence; the driver script merges them
    let ev = Evidence {
        property: format!("C24.part{process_index}"),
        tier,
        seed: ctx.seed,
        rule: String::new(),
        stats,
        assumptions: vec![],
        violations,
        wall_s: timer.secs(),
        exhaustive: None,
        extra: BTreeMap::new(),
    };
    ev.write();
    std::process::exit(if violations > 0 { 1 } else { 0 });
}
