#![no_main]
//! The one libFuzzer binary of the framework; `TFV_FUZZ_TARGET` selects the oracle (see tfv::fuzzentry).
use libfuzzer_sys::fuzz_target;

fuzz_target!(|data: &[u8]| {
    tfv::fuzzentry::fuzz_one(data);
});
