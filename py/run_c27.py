#!/usr/bin/env python3
"""C27: the Python bindings return the same results as the Rust engine.

Part A (differential): replays the JSONL cases emitted by `tfcheck C27-EMIT` through `trustfall.execute_query`
over a mirror adapter that answers from the tables the Rust side recorded; rows must equal the Rust engine's rows
type-exactly (bool is not int, int is not float, -0.0 is not 0.0), argument errors must be errors.

Part B (value conversion, Hypothesis): one-vertex schema; a property returning a generated value and output as-is
must come back identical; an argument equal to the stored value must select the row; a non-convertible argument
must raise an exception.

usage: run_c27.py <cases.jsonl> <tier> <seed> <evidence path> <known findings path> [--replay <file>]
"""
import json
import math
import os
import struct
import sys
import time

sys.path.insert(0, os.path.join(os.path.dirname(os.path.abspath(__file__)), "build"))

import trustfall  # noqa: E402
from trustfall import Adapter, Schema, execute_query  # noqa: E402



def reraise_control(e):
    """a Rust panic inside the bindings surfaces as pyo3's PanicException, a BaseException: catch those, but never
    swallow interpreter control flow"""
    if isinstance(e, (KeyboardInterrupt, SystemExit, GeneratorExit)) or type(e).__module__.startswith("hypothesis"):
        raise e


# ----------------------------------------------------------------------------------------------
# value decoding and strict comparison

def dec(v):
    if isinstance(v, dict):
        if "u" in v:
            return int(v["u"])
        if "f" in v:
            return float(v["f"])
        raise ValueError(f"unknown tagged value {v}")
    if isinstance(v, list):
        return [dec(x) for x in v]
    return v


def strict_key(v):
    """A hashable key that distinguishes bool / int / float (bit-exact) / str / None / list."""
    if v is None:
        return ("n",)
    if isinstance(v, bool):
        return ("b", v)
    if isinstance(v, int):
        return ("i", v)
    if isinstance(v, float):
        return ("f", struct.pack(">d", v))
    if isinstance(v, str):
        return ("s", v)
    if isinstance(v, (list, tuple)):
        return ("l",) + tuple(strict_key(x) for x in v)
    return ("?", repr(v))


def row_key(row):
    return tuple(sorted((k, strict_key(v)) for k, v in row.items()))


# ----------------------------------------------------------------------------------------------
# Part A: mirror adapter

class MirrorError(Exception):
    pass


class MirrorAdapter(Adapter):
    def __init__(self, case):
        self.vertices = [
            {"type": v["type"], "types": set(v["types"]), "props": {k: dec(x) for k, x in v["props"].items()}}
            for v in case["vertices"]
        ]
        self.starts = [(s["edge"], {k: dec(x) for k, x in s["params"].items()}, s["ids"]) for s in case["starts"]]
        self.neighbors = [
            (n["edge"], {k: dec(x) for k, x in n["params"].items()}, {int(k): v for k, v in n["table"].items()})
            for n in case["neighbors"]
        ]
        self.problems = []

    @staticmethod
    def _same_params(got, want):
        if set(got.keys()) != set(want.keys()):
            return False
        return all(strict_key(got[k]) == strict_key(want[k]) for k in want)

    def resolve_starting_vertices(self, edge_name, parameters, *args, **kwargs):
        for edge, params, ids in self.starts:
            if edge == edge_name and self._same_params(dict(parameters), params):
                return iter(list(ids))
        self.problems.append(f"starting edge {edge_name} called with parameters {dict(parameters)!r}, which the Rust run did not see")
        raise MirrorError(self.problems[-1])

    def resolve_property(self, contexts, type_name, property_name, *args, **kwargs):
        for ctx in contexts:
            vid = ctx.active_vertex
            if vid is None:
                yield ctx, None
            elif property_name == "__typename":
                yield ctx, self.vertices[vid]["type"]
            else:
                yield ctx, self.vertices[vid]["props"][property_name]

    def resolve_neighbors(self, contexts, type_name, edge_name, parameters, *args, **kwargs):
        table = None
        for edge, params, tab in self.neighbors:
            if edge == edge_name and self._same_params(dict(parameters), params):
                table = tab
                break
        if table is None:
            self.problems.append(f"edge {edge_name} called with parameters {dict(parameters)!r}, which the Rust run did not see")
            raise MirrorError(self.problems[-1])
        for ctx in contexts:
            vid = ctx.active_vertex
            if vid is None:
                yield ctx, iter(())
            else:
                yield ctx, iter(list(table.get(vid, [])))

    def resolve_coercion(self, contexts, type_name, coerce_to_type, *args, **kwargs):
        for ctx in contexts:
            vid = ctx.active_vertex
            yield ctx, (vid is not None and coerce_to_type in self.vertices[vid]["types"])


def run_case(case):
    """returns None when the Python bindings agree with the Rust engine, else (signature, message)"""
    try:
        schema = Schema(case["schema"])
    except BaseException as e:  # noqa: BLE001
        reraise_control(e)
        return ("c27:schema-rejected-by-python-bindings", f"{type(e).__name__}: {e}")
    args = {k: dec(v) for k, v in case["args"].items()}
    adapter = MirrorAdapter(case)
    expected = case["expected"]
    try:
        rows = list(execute_query(adapter, schema, case["query"], args))
    except trustfall.QueryArgumentsError as e:
        if "arg_error" in expected:
            return None
        return ("c27:python-rejects-arguments-the-rust-engine-accepts", f"{e}")
    except BaseException as e:  # noqa: BLE001
        reraise_control(e)
        first = str(e).split("\n")[0][:100]
        if "Found elements of different (non-null) types in the same list" in str(e) and " of type int vs " in str(e) and str(e).rstrip().endswith("of type int"):
            return ("c27:int-list-mixing-i64-and-u64-ranges-rejected", f"{type(e).__name__}: {e}")
        return (f"c27:python-run-raised|{type(e).__name__}|{first}", f"{type(e).__name__}: {e}\nmirror: {adapter.problems}")
    if "arg_error" in expected:
        return ("c27:python-accepts-arguments-the-rust-engine-rejects", expected["arg_error"])
    want = [{k: dec(v) for k, v in r.items()} for r in expected["rows"]]
    got_keys = [row_key(r) for r in rows]
    want_keys = [row_key(r) for r in want]
    if got_keys != want_keys:
        detail = ""
        for i, (g, w) in enumerate(zip(got_keys, want_keys)):
            if g != w:
                detail = f"first difference at row {i}: python {rows[i]!r} vs rust {want[i]!r}"
                break
        else:
            detail = f"{len(rows)} rows from python vs {len(want)} from rust"
        return ("c27:rows-differ", detail)
    return None


def nontrivial_a(case):
    """a value beyond i64, a float, or a list crossed the boundary in either direction"""
    def interesting(v):
        if isinstance(v, dict):
            return True
        if isinstance(v, list):
            return True
        return False
    for r in case["expected"].get("rows", []):
        if any(interesting(v) for v in r.values()):
            return True
    if any(interesting(v) for v in case["args"].values()):
        return True
    for group in (case["starts"], case["neighbors"]):
        for s in group:
            if any(interesting(v) for v in s["params"].values()):
                return True
    return False


# ----------------------------------------------------------------------------------------------
# Part B: value conversion

VALUE_SCHEMA = """
schema { query: RootSchemaQuery }
directive @filter(op: String!, value: [String!]) repeatable on FIELD | INLINE_FRAGMENT
directive @tag(name: String) on FIELD
directive @output(name: String) on FIELD
directive @optional on FIELD
directive @recurse(depth: Int!) on FIELD
directive @fold on FIELD
directive @transform(op: String!) on FIELD
type RootSchemaQuery { Thing: [Thing!]! }
type Thing {
  i: Int
  f: Float
  s: String
  b: Boolean
  li: [Int]
  lf: [Float]
  ls: [String]
  lb: [Boolean]
  lli: [[Int]]
  lls: [[String]]
}
"""


class OneVertexAdapter(Adapter):
    def __init__(self, props):
        self.props = props

    def resolve_starting_vertices(self, edge_name, parameters, *args, **kwargs):
        return iter([0])

    def resolve_property(self, contexts, type_name, property_name, *args, **kwargs):
        for ctx in contexts:
            yield ctx, (None if ctx.active_vertex is None else self.props[property_name])

    def resolve_neighbors(self, contexts, type_name, edge_name, parameters, *args, **kwargs):
        for ctx in contexts:
            yield ctx, iter(())

    def resolve_coercion(self, contexts, type_name, coerce_to_type, *args, **kwargs):
        for ctx in contexts:
            yield ctx, False


def same_int_kind(values):
    """the documented list rule is about element *types*; ints in the i64 and in the u64-only range are both `int`"""
    return True


def run_value_part(n_examples, seed, stats, report):
    from hypothesis import HealthCheck, given, seed as hseed, settings, strategies as st

    schema = Schema(VALUE_SCHEMA)
    i64 = st.integers(min_value=-(2**63), max_value=2**63 - 1)
    u64hi = st.integers(min_value=2**63, max_value=2**64 - 1)
    edge_ints = st.sampled_from([0, 1, -1, 2**31, -(2**31), 2**53, 2**53 + 1, 2**63 - 1, -(2**63), 2**63, 2**64 - 1])
    ints = st.one_of(edge_ints, i64, u64hi)
    floats = st.floats(allow_nan=False, allow_infinity=False)
    strs = st.text(max_size=12)
    bools = st.booleans()

    def lists(inner):
        return st.lists(st.one_of(st.none(), inner), max_size=5)

    fields = {
        "i": ints, "f": floats, "s": strs, "b": bools,
        "li": lists(ints), "lf": lists(floats), "ls": lists(strs), "lb": lists(bools),
        "lli": lists(lists(ints)), "lls": lists(lists(strs)),
    }
    field_and_value = st.sampled_from(sorted(fields)).flatmap(lambda f: st.tuples(st.just(f), st.one_of(st.none(), fields[f])))

    def has_surrogate(x):
        return isinstance(x, str) and any(0xD800 <= ord(ch) <= 0xDFFF for ch in x)

    surrogate_chars = st.characters(min_codepoint=0xD800, max_codepoint=0xDFFF)
    lone_surrogate_strs = st.tuples(st.text(max_size=3), surrogate_chars, st.text(max_size=3)).map(lambda t: t[0] + t[1] + t[2])

    bad_args = st.one_of(
        st.just(float("nan")), st.just(float("inf")), st.just(-float("inf")),
        st.integers(min_value=2**64, max_value=2**70), st.integers(min_value=-(2**70), max_value=-(2**63) - 1),
        st.dictionaries(st.text(max_size=2), st.integers(), max_size=2), st.binary(max_size=3),
        st.tuples(st.integers(), st.integers()), st.complex_numbers(allow_nan=False, allow_infinity=False),
        st.just([1, "a"]), st.just([1.5, 2]), st.just([True, 1]), st.just(["a", None, 2.0]), st.sets(st.integers(), max_size=2),
        st.just(object()),
        # strings that are not valid Unicode text (lone surrogates, as produced by os.fsdecode on undecodable bytes) cannot be
        # converted to the engine's UTF-8 strings: they must be rejected, not silently rewritten
        lone_surrogate_strs,
        st.lists(st.one_of(st.text(max_size=3), lone_surrogate_strs), min_size=1, max_size=3).filter(lambda l: any(has_surrogate(x) for x in l)),
    )

    def mixed_int_ranges(v):
        """a list (possibly nested) holding both a negative int and an int above i64::MAX"""
        if not isinstance(v, list):
            return False
        flat = [x for x in v if isinstance(x, int) and not isinstance(x, bool)]
        if any(x < 0 or x <= 2**63 - 1 for x in flat) and any(x > 2**63 - 1 for x in flat):
            return True
        return any(mixed_int_ranges(x) for x in v if isinstance(x, list))

    @hseed(seed)
    @settings(max_examples=n_examples, database=None, deadline=None, derandomize=False,
              suppress_health_check=list(HealthCheck), print_blob=False)
    @given(field_and_value)
    def roundtrip(fv):
        field, value = fv
        stats["evaluations"] += 1
        props = {k: None for k in fields}
        props[field] = value
        stats["labels"]["value:" + field] = stats["labels"].get("value:" + field, 0) + 1
        query = "{ Thing { %s @output(name: \"out\") } }" % field
        try:
            rows = list(execute_query(OneVertexAdapter(props), schema, query, {}))
        except BaseException as e:  # noqa: BLE001
            reraise_control(e)
            if mixed_int_ranges(value):
                report("c27:int-list-mixing-i64-and-u64-ranges-rejected", f"property value {value!r}: {type(e).__name__}: {e}", {"field": field, "value": repr(value)})
                return
            report(f"c27:value-from-python-adapter-raised|{type(e).__name__}", f"property {field} = {value!r}: {e}", {"field": field, "value": repr(value)})
            return
        if len(rows) != 1 or strict_key(rows[0]["out"]) != strict_key(value):
            report("c27:value-changed-through-the-bindings", f"property {field} = {value!r} came back as {rows!r}", {"field": field, "value": repr(value)})
            return
        key = ("B", field, strict_key(value))
        interesting = isinstance(value, (float, list)) or (isinstance(value, int) and not isinstance(value, bool) and value > 2**63 - 1)
        if interesting and key not in stats["nontrivial"]:
            stats["nontrivial"].add(key)
            if len(stats["samples"]) < 8 and len([s for s in stats["samples"] if s.get("part") == "B"]) < 4:
                stats["samples"].append({"part": "B", "field": field, "value": repr(value)})
        # argument direction: `=` against the stored value selects the row (scalars and lists alike)
        if value is not None:
            q2 = "{ Thing { %s @filter(op: \"=\", value: [\"$v\"]) @output(name: \"out\") } }" % field
            try:
                rows2 = list(execute_query(OneVertexAdapter(props), schema, q2, {"v": value}))
            except BaseException as e:  # noqa: BLE001
                reraise_control(e)
                if mixed_int_ranges(value):
                    report("c27:int-list-mixing-i64-and-u64-ranges-rejected", f"argument {value!r}: {type(e).__name__}: {e}", {"field": field, "value": repr(value)})
                    return
                report(f"c27:argument-rejected|{type(e).__name__}", f"argument {value!r} for {field}: {e}", {"field": field, "value": repr(value)})
                return
            if len(rows2) != 1:
                report("c27:argument-equal-to-the-stored-value-does-not-select-the-row", f"{field} = {value!r}: rows {rows2!r}", {"field": field, "value": repr(value)})

    @hseed(seed + 1)
    @settings(max_examples=max(50, n_examples // 4), database=None, deadline=None, derandomize=False,
              suppress_health_check=list(HealthCheck), print_blob=False)
    @given(bad_args)
    def rejects(bad):
        stats["evaluations"] += 1
        stats["labels"]["bad_argument"] = stats["labels"].get("bad_argument", 0) + 1
        q = "{ Thing { i @filter(op: \"=\", value: [\"$v\"]) @output } }"
        if isinstance(bad, list):
            q = "{ Thing { li @filter(op: \"=\", value: [\"$v\"]) @output } }"
        # string-typed variables for the string cases, so that only the conversion can reject them
        if isinstance(bad, str):
            q = "{ Thing { s @filter(op: \"=\", value: [\"$v\"]) @output } }"
        if isinstance(bad, list) and any(isinstance(x, str) for x in bad) and all(isinstance(x, str) for x in bad):
            q = "{ Thing { ls @filter(op: \"=\", value: [\"$v\"]) @output } }"
        try:
            rows = list(execute_query(OneVertexAdapter({k: None for k in fields}), schema, q, {"v": bad}))
        except BaseException as e:  # noqa: BLE001
            reraise_control(e)
            key = ("R", type(bad).__name__, repr(bad)[:40])
            stats["nontrivial"].add(key)
            return
        kind = type(bad).__name__
        if isinstance(bad, int):
            kind = "int-outside-64-bits"
        if has_surrogate(bad) or (isinstance(bad, list) and any(has_surrogate(x) for x in bad)):
            kind = "str-with-lone-surrogate"
        report(f"c27:non-convertible-argument-accepted|{kind}", f"argument {bad!r} was accepted (rows {rows!r})", {"argument": repr(bad)})

    roundtrip()
    rejects()


# ----------------------------------------------------------------------------------------------

def main():
    cases_path, tier, seed, evidence_path, known_path = sys.argv[1:6]
    replay = sys.argv[7] if len(sys.argv) > 7 and sys.argv[6] == "--replay" else None
    seed = int(seed)
    t0 = time.time()
    known = [f for f in json.load(open(known_path))["findings"] if f["property"] == "C27" and f["status"] == "open"]
    strict = replay is not None

    stats = {"evaluations": 0, "labels": {}, "nontrivial": set(), "samples": [], "discards": {}}
    violations = []  # (sig, msg, payload)
    known_hits = {}

    def report(sig, msg, payload):
        if not strict:
            for f in known:
                if all(s in sig for s in f["sig_contains"]):
                    known_hits[f["id"]] = known_hits.get(f["id"], 0) + 1
                    return
        if any(v[0].split("|")[0:2] == sig.split("|")[0:2] for v in violations):
            stats["discards"]["further violations with an already reported signature"] = stats["discards"].get("further violations with an already reported signature", 0) + 1
            return
        violations.append((sig, msg, payload))

    if replay:
        j = json.load(open(replay))
        if j.get("subcheck") == "c27-differential":
            r = run_case(j["case"])
            if r:
                print(f"{r[0]}\n{r[1]}", file=sys.stderr)
                print(f"VIOLATION property=C27 replay={replay}")
                return 1
            print("replay: case passes")
            return 0
        print("replay of value-conversion findings: re-running the value part with the saved seed", file=sys.stderr)
        run_value_part(300, j.get("seed", seed), stats, report)
        for sig, msg, _ in violations:
            if sig == j.get("signature"):
                print(f"{sig}\n{msg}", file=sys.stderr)
                print(f"VIOLATION property=C27 replay={replay}")
                return 1
        print("replay: not reproduced")
        return 0

    # Part A
    n_cases = 0
    with open(cases_path) as fh:
        for line in fh:
            case = json.loads(line)
            n_cases += 1
            stats["evaluations"] += 1
            for l in case.get("features", []):
                stats["labels"]["query:" + l] = stats["labels"].get("query:" + l, 0) + 1
            if "arg_error" in case["expected"]:
                stats["labels"]["rust_engine_rejects_arguments"] = stats["labels"].get("rust_engine_rejects_arguments", 0) + 1
            r = run_case(case)
            if r:
                report(r[0], r[1] + "\nquery:\n" + case["query"] + "\nargs: " + json.dumps(case["args"]), {"subcheck": "c27-differential", "case": case})
                continue
            if nontrivial_a(case):
                key = ("A", case["choices"])
                if key not in stats["nontrivial"]:
                    stats["nontrivial"].add(key)
                    if len([s for s in stats["samples"] if s.get("part") == "A"]) < 4:
                        stats["samples"].append({"part": "A", "query": case["query"], "args": case["args"], "rows": case["expected"].get("rows", [])[:3]})
    # Part B
    n_examples = 2000 if tier == "quick" else 100000
    run_value_part(n_examples, seed, stats, report)

    # replay files and evidence
    out_lines = []
    corpus = os.path.join(os.path.dirname(os.path.abspath(__file__)), "..", "corpus", "C27")
    os.makedirs(corpus, exist_ok=True)
    for sig, msg, payload in violations:
        import hashlib
        h = hashlib.sha1((sig + json.dumps(payload, sort_keys=True, default=str)).encode()).hexdigest()[:16]
        path = os.path.abspath(os.path.join(corpus, f"fail-{h}.json"))
        body = {"property": "C27", "signature": sig, "message": msg, "seed": seed}
        body.update(payload if "subcheck" in payload else {"subcheck": "c27-values", "input": payload})
        json.dump(body, open(path, "w"), indent=1, default=str)
        print(f"violation signature: {sig}\n{msg}\n", file=sys.stderr)
        out_lines.append(f"VIOLATION property=C27 replay={path}")
    for f in known:
        if f["id"] in known_hits:
            print(f"KNOWN-FINDING: property=C27 {f['what']} [{f['id']}; hits={known_hits[f['id']]}]")
    total = max(1, stats["evaluations"])
    evidence = {
        "property_id": "C27",
        "tier": tier,
        "seed": seed,
        "level": "exploration",
        "coverage": {
            "evaluations": stats["evaluations"],
            "distinct_nontrivial": len(stats["nontrivial"]),
            "rule": "part A: differential cases (generated schema, dataset, query, arguments) emitted by the Rust harness with the Rust "
                    "engine's rows; the Python bindings run the same query over a mirror adapter answering from the recorded tables (parameter "
                    "values compared type-exactly); rows compared type- and bit-exactly. Part B (Hypothesis): one-vertex schema, a generated value "
                    "(ints over all 64-bit boundaries, finite floats, strings, booleans, None, lists, nested lists) returned by a Python adapter "
                    "and output as-is must come back identical, the same value as an argument of `=` must select the row, non-convertible "
                    "arguments (NaN, infinities, ints outside 64 bits, dict, bytes, tuple, complex, set, mixed lists, object(), strings with lone surrogates) must raise. "
                    "Non-trivial: a float, a list or an int beyond i64 crossed the boundary (part A: in rows, arguments or edge parameters; "
                    "part B: the generated value), or a non-convertible argument was rejected; distinct by case / by value.",
            "samples": stats["samples"],
            "label_histogram": {k: {"count": v, "fraction": v / total} for k, v in sorted(stats["labels"].items())},
            "discards": stats["discards"],
            "known_finding_hits": known_hits,
            "counters": {"differential_cases": n_cases, "hypothesis_examples": stats["evaluations"] - n_cases},
            "case_count_scale": float(os.environ.get("VERIF_SCALE", "1") or 1),
        },
        "assumptions": [
            "the mirror adapter answers starting-vertex and neighbour calls from tables recorded in the Rust run; a call with parameters the Rust run did not see is reported as a difference",
            "pytrustfall is built from the current tree with PYO3_PYTHON=/opt/veriftools/pyvenv/bin/python",
        ],
        "wall_s": time.time() - t0,
        "violations": len(violations),
    }
    json.dump(evidence, open(evidence_path, "w"), indent=2)
    print(f"property=C27 tier={tier} seed={seed} evaluations={stats['evaluations']} distinct_nontrivial={len(stats['nontrivial'])} discards={stats['discards']} wall_s={time.time() - t0:.1f}")
    for l in out_lines:
        print(l)
    return 1 if violations else 0


if __name__ == "__main__":
    sys.exit(main())
