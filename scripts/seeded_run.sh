#!/bin/bash
# scripts/seeded_run.sh <seeded_id> [check ids ...]
# Applies /verif/seeded/<id>/patch.diff to /repo's working tree, runs the given quick checks (default: the property the
# change targets, taken from the id prefix), and always reverts /repo afterwards. Prints one line per check.
# Never run while a background run uses /repo.
set -u
ID="${1:?seeded id}"; shift
cd /verif
CHECKS="${*:-$(echo ${ID%%-*} | tr -d a-z)}"
if [ -n "$(git -C /repo status --porcelain --untracked-files=no)" ]; then echo "/repo is dirty; refusing"; exit 2; fi
P="/verif/seeded/$ID/patch.diff"; [ -f "$P" ] || P="/tmp/pre/$ID/patch.diff"; git -C /repo apply "$P" || { echo "cannot apply"; exit 2; }
trap 'git -C /repo checkout -q -- .' EXIT
mkdir -p /tmp/seeded_fail/$ID
for c in $CHECKS; do
  before=$(ls corpus/$c/fail-* 2>/dev/null | sort)
  s=$(date +%s)
  out=$(VERIF_SEED="${VERIF_SEED:-1}" ./check "$c" "${TIER:-quick}" 2>&1); rc=$?
  e=$(date +%s)
  echo "seeded=$ID check=$c rc=$rc $((e-s))s :: $(echo "$out" | grep -m1 '^VIOLATION' || echo "$out" | tail -1 | cut -c1-200)"
  [ -n "${VERBOSE:-}" ] && echo "$out" | tail -20
  if [ -d "/verif/seeded/$ID" ]; then
    hc=$(git -C /verif rev-parse --short HEAD); [ -n "$(git -C /verif status --porcelain --untracked-files=no | grep -v evidence/)" ] && hc="$hc+uncommitted"
    printf '%s\t%s\t%s\t%s\t%s\n' "$c" "${TIER:-quick}" "${VERIF_SEED:-1}" "$rc" "$hc" >> "/verif/seeded/$ID/detections.tsv"
  fi
  # replay files written against the mutant are kept outside /verif (they would be replayed by every later run), and
  # the evidence file of the unchanged tree is restored
  for f in $(comm -13 <(echo "$before") <(ls corpus/$c/fail-* 2>/dev/null | sort)); do mv "$f" /tmp/seeded_fail/$ID/; done
  git checkout -q -- "evidence/$c.json" 2>/dev/null
done
