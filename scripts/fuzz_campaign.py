#!/usr/bin/env python3
"""Coverage-guided (libFuzzer) campaign for one target of the framework's fuzz binary.

usage: fuzz_campaign.py <target> <runs_per_worker> [--workers N] [--no-build]

* rebuilds /verif/fuzz (the binary `fz`) from /repo's current working tree with cargo-fuzz (nightly, no sanitizer: the
  engine is safe Rust; debug assertions and overflow checks are on);
* starts N independent libFuzzer processes (own corpus directory, own -seed derived from VERIF_SEED, fixed -runs), because
  `-jobs` would give every worker the same seed;
* the oracle is inside the target (tfv::fuzzentry): a violation writes /verif/corpus/<ID>/fail-*.json and aborts;
* merges what was covered into /verif/evidence/<ID>.json under coverage.fuzz_campaigns.<target>;
* prints `VIOLATION property=<ID> replay=<path>` and exits 1 on a violation, exits 2 when the campaign is inconclusive
  (build failure, a worker that keeps hitting libFuzzer's timeout / memory limit, harness self-check), exits 0 otherwise.
libFuzzer is pinned by -seed/-runs only approximately; the saved input is the reproducible unit.
"""
import glob, json, os, random, re, shutil, subprocess, sys, time

VERIF = "/verif"
# evidence and replay files go to VERIF_OUT when set (ad-hoc deep runs), exactly like the proptest tiers
OUT = os.environ.get("VERIF_OUT", VERIF)
TARGETS = {
    "c01": "C01", "c02": "C02", "c03": "C03", "c04": "C04", "c05": "C05", "c09": "C09", "c10": "C10", "c10-text": "C10",
    "c11": "C11", "c11-hostile": "C11", "c12": "C12", "c13": "C13", "c15": "C15", "c16-ir": "C16", "c16-json": "C16",
    "c16-ron": "C16", "c19": "C19", "c19-text": "C19", "c21": "C21", "c22-reference": "C22", "c22-meta": "C22",
    "c22-strip": "C22", "c23": "C23",
}
TEXT_TARGETS = {"c10-text", "c19-text", "c16-json", "c16-ron"}
QUERY_DICT = ["@filter", "@output", "@tag", "@optional", "@recurse", "@fold", "@transform", "(op: \\\"count\\\")", "op:", "value:",
              "name:", "depth:", "... on ", "{", "}", "[", "]", "\\\"$x\\\"", "\\\"%t\\\"", "\\\"=\\\"", "\\\"<\\\"", "\\\">=\\\"", "\\\"one_of\\\"",
              "\\\"contains\\\"", "\\\"regex\\\"", "\\\"is_null\\\"", "\\\"has_prefix\\\"", "__typename", "query", "fragment", "mutation",
              "subscription", "null", "true", "Number", "value", "name", "successor", "multiple", "max:", "min:", "primeFactor",
              "Composite", "Prime", "vowelsInName", "OriginDirectory", "out_Directory_ContainsFile", "$v", "\\\"\\\""]
SCHEMA_DICT = ["schema {", "query: RootSchemaQuery", "type ", "interface ", "implements ", " & ", "scalar ", "directive @",
               "on FIELD", "repeatable", "on INLINE_FRAGMENT", ": Int", ": String", ": Boolean", ": Float", ": ID", "!", "[", "]",
               "= 5", "= null", "= \\\"a\\\"", "= [1]", "(x: Int)", "(x: Int! = 1)", "__", "\\\"\\\"\\\"doc\\\"\\\"\\\"", "RootSchemaQuery", "{", "}"]
VALUE_DICT = ["null", "true", "false", "[", "]", ",", "\\\"", "1", "-1", "0.1", "1e300", "18446744073709551615",
              "-9223372036854775808", "9223372036854775808", "Int64(", "Uint64(", "Float64(", "String(", "Boolean(", "List(",
              "Enum(", "Null", ")", "\\\"Int!\\\"", "\\\"[String]!\\\"", "[Int!]", "!", "1.7976931348623157e308", "5e-324",
              "0.30000000000000004", "-0.0"]


def sh(cmd, **kw):
    return subprocess.run(cmd, shell=True, text=True, capture_output=True, **kw)


def build():
    r = sh("CARGO_NET_OFFLINE=true cargo +nightly fuzz build --fuzz-dir /verif/fuzz --target-dir /verif/target-fuzz -s none fz")
    if r.returncode != 0:
        sys.stderr.write(r.stderr[-4000:])
        print("INCONCLUSIVE: the fuzz binary (or /repo) does not build", file=sys.stderr)
        sys.exit(2)
    return "/verif/target-fuzz/x86_64-unknown-linux-gnu/release/fz"


def seed_corpus(target, d, seed):
    os.makedirs(d, exist_ok=True)
    rnd = random.Random(seed)
    n = 0
    if target == "c10-text":
        # the repository's own test queries, prefixed with each schema selector byte
        for path in sorted(glob.glob("/repo/trustfall_core/test_data/tests/*/*.graphql.ron")):
            text = open(path, encoding="utf-8", errors="replace").read()
            m = re.search(r'query:\s*r#"(.*?)"#', text, re.S)
            if not m:
                continue
            for sel in (rnd.randrange(6),):
                open(f"{d}/q{n:04d}", "wb").write(bytes([sel]) + m.group(1).encode())
                n += 1
    elif target == "c19-text":
        for path in sorted(glob.glob("/repo/trustfall_core/test_data/schemas/*.graphql")) + sorted(
                glob.glob("/repo/trustfall_core/test_data/tests/schema_errors/*.graphql")) + [
                "/repo/trustfall_core/src/schema/adapter/schema.graphql"]:
            try:
                data = open(path, "rb").read()
            except OSError:
                continue
            if len(data) <= 6000:
                open(f"{d}/s{n:04d}", "wb").write(data)
                n += 1
    elif target in ("c16-json", "c16-ron"):
        ron = target.endswith("ron")
        vals = (["Null", "Int64(-1)", "Uint64(18446744073709551615)", "Float64(0.1)", "String(\"a\")", "Boolean(true)",
                 "List([Int64(1),Null,List([String(\"x\")])])", "\"[Int!]!\"", "\"String\""] if ron else
                ["null", "-1", "18446744073709551615", "0.1", "\"a\"", "true", "[1,null,[\"x\"]]", "\"[Int!]!\"", "\"String\"",
                 "1e300", "[[[]]]", "9223372036854775808"])
        for v in vals:
            open(f"{d}/v{n:04d}", "w").write(v)
            n += 1
    else:
        # choice streams: deterministic pseudo-random byte strings over the same length range as the proptest tiers,
        # plus a few low-entropy ones (all-zero = the simplest world)
        for k in range(48):
            length = rnd.randrange(48, 700)
            if k % 6 == 0:
                data = bytes(length)
            elif k % 6 == 1:
                data = bytes(rnd.choice([0, 0, 0, 255, 128, rnd.randrange(256)]) for _ in range(length))
            else:
                data = bytes(rnd.randrange(256) for _ in range(length))
            open(f"{d}/r{n:04d}", "wb").write(data)
            n += 1
    return n


def main():
    args = sys.argv[1:]
    if len(args) < 2 or args[0] not in TARGETS:
        print(__doc__)
        sys.exit(2)
    target, runs = args[0], int(args[1])
    workers = 16
    do_build = True
    i = 2
    while i < len(args):
        if args[i] == "--workers":
            workers = int(args[i + 1]); i += 1
        elif args[i] == "--no-build":
            do_build = False
        i += 1
    prop = TARGETS[target]
    seed = int(os.environ.get("VERIF_SEED", "20260921")) & 0x7FFFFFFF
    binary = build() if do_build else "/verif/target-fuzz/x86_64-unknown-linux-gnu/release/fz"
    work = f"{OUT}/scratch/fuzz/{target}"
    shutil.rmtree(work, ignore_errors=True)
    os.makedirs(work)
    dict_path = None
    if target in TEXT_TARGETS:
        words = QUERY_DICT if target == "c10-text" else SCHEMA_DICT if target == "c19-text" else VALUE_DICT
        dict_path = f"{work}/dict.txt"
        open(dict_path, "w").write("".join(f"\"{w}\"\n" for w in words))
    max_len = {"c10-text": 1200, "c19-text": 3000, "c16-json": 300, "c16-ron": 300}.get(target, 1000)
    before = set(glob.glob(f"{OUT}/corpus/{prop}/fail-*.json"))
    t0 = time.time()
    from concurrent.futures import ThreadPoolExecutor

    def run_worker(j):
        """One worker = one corpus directory and one fixed number of runs. A libFuzzer timeout / out-of-memory report ends the
        process; the offending input is abandoned (counted) and the worker is restarted on its corpus for the remaining runs."""
        cdir = f"{work}/corpus-{j}"
        n_seed = seed_corpus(target, cdir, seed * 1000 + j)
        left, executed, restarts, abandoned = runs, 0, 0, 0
        cov = ft = corp = 0
        violation = self_check = False
        rc = 0
        text_all = ""
        while left > 0 and restarts <= 25:
            cmd = [binary, cdir, f"-runs={left}", f"-seed={(seed * 1000 + j + 7919 * restarts) % 2147483647 + 1}", f"-max_len={max_len}",
                   "-len_control=0", "-timeout=60", "-rss_limit_mb=5000", "-print_final_stats=1", f"-artifact_prefix={work}/artifact-{j}-"]
            if dict_path:
                cmd.append(f"-dict={dict_path}")
            env = dict(os.environ, TFV_FUZZ_TARGET=target, TFV_FUZZ_STATS=f"{work}/stats-{j}-{restarts}.json", RUST_BACKTRACE="0")
            log_path = f"{work}/log-{j}-{restarts}.txt"
            with open(log_path, "w") as log:
                rc = subprocess.run(cmd, stdout=log, stderr=subprocess.STDOUT, env=env, cwd=work).returncode
            text = open(log_path, errors="replace").read()
            text_all += text
            m = re.search(r"stat::number_of_executed_units:\s*(\d+)", text)
            done = int(m.group(1)) if m else 0
            for m in re.finditer(r"#\d+\s+\w+\s+cov: (\d+) ft: (\d+) corp: (\d+)", text):
                cov, ft, corp = max(cov, int(m.group(1))), max(ft, int(m.group(2))), int(m.group(3))
            executed += done
            left -= max(done, 1)
            violation = violation or "FUZZ-VIOLATION" in text
            self_check = self_check or "HARNESS-SELF-CHECK-FAILED" in text
            if violation:
                break
            if re.search(r"ERROR: libFuzzer: (timeout|out-of-memory)", text):
                abandoned += 1
                restarts += 1
                continue
            if rc != 0:
                break
            break
        return {"worker": j, "rc": rc, "executions": executed, "cov": cov, "ft": ft, "corpus": corp, "seed_inputs": n_seed,
                "violation": violation, "abandoned_inputs": abandoned, "restarts_exhausted": restarts > 25, "self_check": self_check,
                "crashed_without_replay": rc != 0 and not violation and not re.search(r"ERROR: libFuzzer: (timeout|out-of-memory)", text_all[-4000:])}

    with ThreadPoolExecutor(max_workers=workers) as pool:
        results = list(pool.map(run_worker, range(workers)))
    wall = time.time() - t0
    # statistics written by the targets
    agg = {"executions": 0, "distinct_nontrivial_per_worker_sum": 0, "discarded_total": 0, "labels": {}, "discards": {},
           "known_finding_hits": {}, "samples": []}
    for path in sorted(glob.glob(f"{work}/stats-*.json")):
        try:
            s = json.load(open(path))
        except (OSError, ValueError):
            continue
        agg["distinct_nontrivial_per_worker_sum"] += s.get("distinct_nontrivial", 0)
        agg["discarded_total"] += s.get("discarded_total", 0)
        for key in ("labels", "discards", "known_finding_hits"):
            for k, v in s.get(key, {}).items():
                agg[key][k] = agg[key].get(k, 0) + v
        if len(agg["samples"]) < 5:
            agg["samples"].extend(s.get("samples", [])[: 5 - len(agg["samples"])])
    agg["executions"] = sum(r["executions"] for r in results)
    new_fail = sorted(set(glob.glob(f"{OUT}/corpus/{prop}/fail-*.json")) - before)
    violations = []
    for f in new_fail:
        try:
            if json.load(open(f)).get("subcheck") == target:
                violations.append(f)
        except (OSError, ValueError):
            pass
    crashed_without_replay = [r for r in results if r["crashed_without_replay"]]
    inconclusive = [r for r in results if r["restarts_exhausted"] or r["self_check"]] + crashed_without_replay
    campaign = {
        "engine": "libFuzzer (cargo-fuzz, nightly), coverage-guided, oracle inside the target",
        "target": target, "workers": workers, "runs_per_worker": runs, "executions": agg["executions"],
        "edge_coverage_max": max((r["cov"] for r in results), default=0),
        "features_max": max((r["ft"] for r in results), default=0),
        "corpus_sizes": [r["corpus"] for r in results], "seed_inputs_per_worker": results[0]["seed_inputs"] if results else 0,
        "distinct_nontrivial_per_worker_sum": agg["distinct_nontrivial_per_worker_sum"],
        "note_on_statistics": "label / discard counters are written by the target every 2000 executions, so they may lag the execution count by up to that many per worker",
        "discards": agg["discards"], "label_counts": agg["labels"], "known_finding_hits": agg["known_finding_hits"],
        "samples": agg["samples"], "violations": len(violations), "inconclusive_workers": len(inconclusive), "wall_s": round(wall, 1),
        "inputs_abandoned_after_libfuzzer_timeout_or_oom": sum(r["abandoned_inputs"] for r in results),
        "note_on_abandoned_inputs": "an input that needs more than 60 s or 5 GB ends its libFuzzer process; it is not a violation (generated queries have a heavy tail); the worker is restarted on its corpus for the remaining runs",
    }
    os.makedirs(f"{OUT}/evidence", exist_ok=True)
    ev_path = f"{OUT}/evidence/{prop}.json"
    try:
        ev = json.load(open(ev_path))
    except (OSError, ValueError):
        ev = {"property_id": prop, "tier": os.environ.get("VERIF_TIER", "thorough"), "seed": seed, "level": "exploration",
              "coverage": {"evaluations": 0, "distinct_nontrivial": 0, "rule": "see fuzz_campaigns", "samples": []},
              "assumptions": [], "wall_s": 0.0, "violations": 0}
    ev.setdefault("coverage", {}).setdefault("fuzz_campaigns", {})[target] = campaign
    ev["violations"] = int(ev.get("violations", 0)) + len(violations)
    json.dump(ev, open(ev_path, "w"), indent=2)
    print(f"fuzz target={target} property={prop} workers={workers} executions={agg['executions']} cov={campaign['edge_coverage_max']} "
          f"ft={campaign['features_max']} violations={len(violations)} abandoned_inputs={campaign['inputs_abandoned_after_libfuzzer_timeout_or_oom']} "
          f"inconclusive_workers={len(inconclusive)} wall_s={wall:.1f}")
    try:
        what = {f["id"]: f.get("what", "") for f in json.load(open(f"{VERIF}/known_findings.json")).get("findings", [])}
    except (OSError, ValueError):
        what = {}
    for kf, n in agg["known_finding_hits"].items():
        print(f"KNOWN-FINDING: property={prop} {what.get(kf, kf)} [{kf}; reached by fuzz target {target}; hits={n}]")
    if violations:
        for f in violations:
            print(f"VIOLATION property={prop} replay={f}")
        sys.exit(1)
    if inconclusive:
        for r in inconclusive[:3]:
            print(f"INCONCLUSIVE: worker {r['worker']} rc={r['rc']} restarts_exhausted={r['restarts_exhausted']} self_check={r['self_check']}; see {work}/log-{r['worker']}-*.txt", file=sys.stderr)
        sys.exit(2)
    sys.exit(0)


if __name__ == "__main__":
    main()
