#!/bin/bash
# C27: Python bindings agree with the Rust engine. usage: scripts/check_C27.sh <quick|thorough> [--replay <file>]
set -u
cd "$(dirname "$0")/.."
TIER="${1:-quick}"; shift || true
export CARGO_NET_OFFLINE=true
SEED="${VERIF_SEED:-20260921}"
PY=/opt/veriftools/pyvenv/bin/python
mkdir -p scratch/c27
# 1. the case emitter (harness) and the bindings, both from the current tree
if ! ( cd harness && cargo build --release --target-dir /verif/target-a >/verif/target-a.build.log 2>&1 ); then
  echo "INCONCLUSIVE: harness or /repo does not build; see /verif/target-a.build.log" >&2; tail -30 /verif/target-a.build.log >&2; exit 2
fi
if ! ( cd /repo && PYO3_PYTHON=$PY cargo build --release --offline -p pytrustfall --target-dir /verif/target-py >/verif/target-py.build.log 2>&1 ); then
  echo "INCONCLUSIVE: pytrustfall does not build; see /verif/target-py.build.log" >&2; tail -30 /verif/target-py.build.log >&2; exit 2
fi
rm -rf py/build && mkdir -p py/build/trustfall
cp /repo/pytrustfall/trustfall/*.py /repo/pytrustfall/trustfall/*.pyi /repo/pytrustfall/trustfall/py.typed py/build/trustfall/ 2>/dev/null
cp /verif/target-py/release/libtrustfall.so py/build/trustfall/trustfall.so
if ! $PY -c "import sys; sys.path.insert(0, 'py/build'); import trustfall" 2>/verif/scratch/c27.import.log; then
  echo "INCONCLUSIVE: the built bindings do not import" >&2; cat /verif/scratch/c27.import.log >&2; exit 2
fi
# 2. cases from the Rust engine
SCALE="${VERIF_SCALE:-1}"
case "$TIER" in thorough) N=200000 ;; *) N=3000 ;; esac
N=$(python3 -c "print(max(1, int($N * $SCALE)))")
mkdir -p scratch/c27
CASES=scratch/c27/cases-$TIER-$SEED.jsonl
if [ "${1:-}" != "--replay" ]; then
  if ! VERIF_SEED=$SEED /verif/target-a/release/tfcheck C27-EMIT "$N" > "$CASES" 2>/verif/scratch/c27.emit.log; then
    echo "INCONCLUSIVE: the case emitter failed" >&2; tail -5 /verif/scratch/c27.emit.log >&2; exit 2
  fi
else
  : > "$CASES"
fi
# 3. the Python side
$PY py/run_c27.py "$CASES" "$TIER" "$SEED" /verif/evidence/C27.json /verif/known_findings.json "$@"
rc=$?
rm -f "$CASES"
exit $rc
