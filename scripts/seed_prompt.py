#!/usr/bin/env python3
"""Prints the prompt given to a fresh sub-agent that is asked to break one property.
The prompt contains the property's text and the path of the agent's own scratch worktree; nothing from /verif."""
import json, sys

pid = sys.argv[1]
wt = sys.argv[2] if len(sys.argv) > 2 else f"/tmp/wt/{pid}"
n = int(sys.argv[3]) if len(sys.argv) > 3 else 2
extra = sys.argv[4] if len(sys.argv) > 4 else ""
prop = None
for line in open("/verif/properties.jsonl"):
    p = json.loads(line)
    if p["id"] == pid:
        prop = p
assert prop
text = {k: prop[k] for k in ("id", "title", "statement", "quantifier", "anchors") if k in prop}
print(f"""You are helping to evaluate a test-quality study on the open-source Rust project obi1kenobi/trustfall (a GraphQL-syntax query
engine). You have your own scratch git worktree of the project at {wt} (detached HEAD). Work ONLY inside {wt}; never
touch /repo or /verif, never commit, never read anything under /verif. The sandbox has no network: always pass `--offline`
to cargo, and use `CARGO_TARGET_DIR={wt}/target` so your build output stays inside your worktree.

Here is a semantic property of the project that should hold:

{json.dumps(text, indent=1)}

Your job: produce {n} DIFFERENT realistic source changes ("seeded defects") to the project, each of which BREAKS this property
while the project still compiles and its existing test suite still passes. Each change should look like a plausible
maintainer mistake or an over-eager optimisation/refactor (a few lines; not sabotage such as `if x == 42 {{ panic }}`, not
a check for a magic constant or magic name). Prefer changes that need something SPECIFIC to manifest — an unusual input, a
particular combination of query features, a multi-step sequence, a particular boundary value, or two cooperating sites that
each look fine alone — rather than changes that ordinary use exposes at once. The {n} changes must differ in mechanism
(different function / different code path), not be variations of one edit. {extra}

For each change i = 1..{n} deliver a directory {wt}/_deliver/<i>/ containing:
  * patch.diff   — `git diff` of the source change only (relative to HEAD, applies with `git apply` at the worktree root;
                   it must not contain the demonstration, and must not edit existing tests or test data);
  * demo/        — a demonstration that FAILS with the change applied and PASSES without it: normally one new Rust
                   integration test file (e.g. demo/demo_<name>.rs) plus demo/run.sh, a bash script that is run from the
                   worktree root, copies the file(s) where they need to be (e.g. into trustfall_core/tests/), runs it
                   (e.g. `cargo test --offline -p trustfall_core --test demo_<name>`), removes the copied file(s) again and exits
                   0 on pass / non-zero on fail. The demonstration must use only the crates' PUBLIC API (you may enable
                   existing cargo features such as `__private`), write its own tiny adapter/schema/data if needed, and assert
                   what the PROPERTY says (not merely "output differs from HEAD").
  * notes.md     — what the change does, why it breaks the property, what exactly is needed for it to manifest, and the
                   commands you ran with their outcome.

Required verification, which you must actually run and report in notes.md:
  1. with the change applied: the project builds, and the existing tests of every package you touched pass
     (`cargo test --offline -p <package>`; for trustfall_core that is `cargo test --offline -p trustfall_core`). Note: in
     trustfall_stubgen three golden tests (hackernews_schema, no_edges_schema, use_reserved_rust_names_in_schema) fail offline even
     on the unchanged tree; ignore those three only.
  2. with the change applied: demo/run.sh fails;   3. with the change reverted (`git checkout -- .`): demo/run.sh passes.
If a candidate change makes an existing test fail, discard or adjust it — a change the suite already catches is useless.
Leave the worktree with the source changes reverted (only _deliver/ and target/ remaining). Keep the build small: build only
the packages you need (not the whole workspace) to save disk. When done, reply with a short summary: for each change, one
paragraph on the mechanism and what it needs to manifest, plus the verification results.""")
