#!/bin/bash
# Runs every registered quick check once the way the harness does (VERIF_SEED given, VERIF_SCALE unset) and
# prints one summary line per check. Usage: scripts/run_all_quick.sh [seed ...]
cd "$(dirname "$0")/.."
unset VERIF_SCALE
export VERIF_TIER=quick
for seed in "${@:-1}"; do
  for id in $(jq -r '.checks[].property_id' MANIFEST.json); do
    rm -f "evidence/$id.json"
    s=$(date +%s.%N)
    out=$(VERIF_SEED=$seed ./check "$id" quick 2>&1); rc=$?
    e=$(date +%s.%N)
    ev=missing; [ -f "evidence/$id.json" ] && ev=written
    echo "seed=$seed $id rc=$rc evidence=$ev $(printf '%.1f' "$(echo "$e-$s" | bc)")s violations=$(echo "$out" | grep -c '^VIOLATION') known=$(echo "$out" | grep -c '^KNOWN-FINDING') :: $(echo "$out" | tail -1 | cut -c1-160)"
  done
done
