#!/usr/bin/env python3
"""Writes /verif/seeded/<id>/meta.json for every confirmed seeded defect from the table below (what it breaks, what it
needs in order to manifest, what was run) plus verify.json (suite + demonstration results recorded by
scripts/seeded_verify.sh) and detections.tsv (appended by scripts/seeded_run.sh)."""
import json, os, sys

NEEDS = {
    "C01-1": ("C01", "a schema parameter that is nullable AND has a non-null default (`near(radius: Int = 1)`), omitted by the query, with data where null and the default select different neighbours"),
    "C01-2": ("C01", "a non-empty @fold containing an @optional edge that is missing for some element, with a nested @fold (list or count output) inside that optional scope"),
    "C02-1": ("C02", "@recurse whose source vertex is inside an @optional that is missing for a row that follows a row where it exists, and resolve_neighbors reading ahead >= 3 contexts"),
    "C02-2": ("C02", "@fold nested in @fold with outputs in the inner fold and a property output in the outer fold, >= 2 outer elements with different inner results, resolve_property reading ahead >= 2 contexts"),
    "C03-1": ("C03", "a regex / not_regex filter whose pattern is a tag (%tag) in the root component, >= 2 starting vertices, pulls counted row by row"),
    "C03-2": ("C03", "@recurse nested inside @optional, the optional edge missing for a starting vertex that is followed by others"),
    "C04-1": ("C04", "a @tag inside an @optional edge used by a later filter, a row where the optional edge is absent, an adapter that resolves dynamic hints"),
    "C04-2": ("C04", "a fold-count filter `one_of [0, n]` (list with 0 and a positive value), a vertex with zero neighbours along the fold, an adapter pruning by mandatory-edge hints"),
    "C05-1": ("C05", "@tag and the @filter consuming it on the same vertex, the tagged property having no other use there"),
    "C05-2": ("C05", "a fold (body, nested fold or count filter) using a tag defined on a parent-component vertex other than the one the fold hangs off, property otherwise unused"),
    "C11-1": ("C11", "the same tag referenced twice where a non-first reference is inside a fold that has not imported it yet (two sibling folds on one tag; count filter then later fold)"),
    "C11-2": ("C11", "a fold-count filter with a variable at fold depth >= 2, the variable used nowhere else or only with wider types"),
    "C13-1": ("C13", ">= 2 nested folds whose optional status differs between levels, and data where that @optional edge is missing"),
    "C13-2": ("C13", ">= 3 fold levels with an output-free middle level and outputs below it, a row whose outer fold is empty or under a missing @optional"),
    "C22-1": ("C22", "a lower-bound count filter (>= / >) together with a != / not_one_of filter on the same fold count, both with variables, nothing observing the fold, fold larger than the bound"),
    "C22-2": ("C22", "an outer fold with only lower-bound count filters whose only observed content is a nested fold's count @output, outer fold larger than the bound"),
}


def main():
    root = "/verif/seeded"
    for sid in sorted(os.listdir(root)):
        d = f"{root}/{sid}"
        if not os.path.isdir(d) or not os.path.exists(f"{d}/verify.json"):
            continue
        prop, needs = NEEDS.get(sid, (sid.split("-")[0], "see notes.md"))
        verify = json.load(open(f"{d}/verify.json"))
        detections = []
        if os.path.exists(f"{d}/detections.tsv"):
            for line in open(f"{d}/detections.tsv"):
                parts = line.rstrip("\n").split("\t")
                if len(parts) >= 4:
                    detections.append({"check": parts[0], "tier": parts[1], "seed": parts[2], "exit_code": int(parts[3]),
                                       "detected": parts[3] == "1", "harness_commit": parts[4] if len(parts) > 4 else ""})
        meta = {
            "id": sid,
            "breaks_property": prop,
            "origin": "written by a fresh sub-agent that was given only the property text and a scratch worktree of /repo",
            "needs_to_manifest": needs,
            "confirmed": {
                "where": "scratch worktree /tmp/vw (removed afterwards); never applied to /repo except transiently by scripts/seeded_run.sh",
                "repository_suite_with_patch": verify.get("suite_with_patch"),
                "suite_cmd": verify.get("suite_cmd"),
                "demo_exit_code_with_patch": verify.get("demo_rc_with_patch"),
                "demo_exit_code_without_patch": verify.get("demo_rc_without_patch"),
                "demo_cmd": "bash demo/run.sh (from the worktree root)",
            },
            "framework_runs": detections,
            "detected_by": sorted({x["check"] for x in detections if x["detected"]}),
        }
        json.dump(meta, open(f"{d}/meta.json", "w"), indent=1)
        print(sid, "detected_by", meta["detected_by"])


if __name__ == "__main__":
    main()
