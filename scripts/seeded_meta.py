#!/usr/bin/env python3
"""Writes /verif/seeded/<id>/meta.json for every confirmed seeded defect from the table below (what it breaks, what it
needs in order to manifest, what was run) plus verify.json (suite + demonstration results recorded by
scripts/seeded_verify.sh) and detections.tsv (appended by scripts/seeded_run.sh)."""
import json, os, sys

NEEDS = {
    "C01-1": ("C01", "a schema parameter that is nullable AND has a non-null default (`near(radius: Int = 1)`), omitted by the query, with data where null and the default select different neighbours"),
    "C01-2": ("C01", "a non-empty @fold containing an @optional edge that is missing for some element, with a nested @fold (list or count output) inside that optional scope"),
    "C02-1": ("C02", "@recurse whose source vertex is inside an @optional that is missing for a row that follows a row where it exists, and resolve_neighbors reading ahead >= 3 contexts"),
    "C02-2": ("C02", "@fold nested in @fold with outputs in the inner fold and a property output in the outer fold, >= 2 outer elements with different inner results, resolve_property reading ahead >= 2 contexts"),
    "C03-1": ("C03", "a regex / not_regex filter whose pattern is a tag (%tag) in the root component, >= 2 starting vertices, pulls counted row by row"),
    "C03-2": ("C03", "@recurse nested inside @optional, the optional edge missing for a starting vertex that is followed by others"),
    "C04-1": ("C04", "a @tag inside an @optional edge used by a later filter, a row where the optional edge is absent, an adapter that resolves dynamic hints"),
    "C04-2": ("C04", "a fold-count filter `one_of [0, n]` (list with 0 and a positive value), a vertex with zero neighbours along the fold, an adapter pruning by mandatory-edge hints"),
    "C05-1": ("C05", "@tag and the @filter consuming it on the same vertex, the tagged property having no other use there"),
    "C05-2": ("C05", "a fold (body, nested fold or count filter) using a tag defined on a parent-component vertex other than the one the fold hangs off, property otherwise unused"),
    "C11-1": ("C11", "the same tag referenced twice where a non-first reference is inside a fold that has not imported it yet (two sibling folds on one tag; count filter then later fold)"),
    "C11-2": ("C11", "a fold-count filter with a variable at fold depth >= 2, the variable used nowhere else or only with wider types"),
    "C13-1": ("C13", ">= 2 nested folds whose optional status differs between levels, and data where that @optional edge is missing"),
    "C13-2": ("C13", ">= 3 fold levels with an output-free middle level and outputs below it, a row whose outer fold is empty or under a missing @optional"),
    "C06-1": ("C06", "intersecting a range with an inclusive end bound with a range whose exclusive end bound has the same value (`<= $a` then `< $a`), also across Int64/Uint64 encodings"),
    "C06-2": ("C06", "excluding from a range bounded on BOTH sides a non-null value equal to one of its inclusive end points (`>= $lo`, `<= $hi`, `!= $lo`)"),
    "C07-1": ("C07", "`=` / `!=` (also inside lists) between an Int64 and a Uint64 with the same 64-bit pattern: negative signed value vs unsigned value above i64::MAX"),
    "C07-2": ("C07", "an ordering operator with both operands floats that are zeros of opposite sign (-0.0 vs 0.0)"),
    "C08-1": ("C08", "equality between a negative Int64 and the Uint64 with the same bit pattern (>= 2^63)"),
    "C08-2": ("C08", "ordering between -0.0 and 0.0 (total_cmp) while equality treats them as equal, also inside lists"),
    "C09-1": ("C09", "a @recurse edge somewhere below an @optional edge, and a vertex for which that optional edge does not exist"),
    "C09-2": ("C09", "a list-of-strings property (or tag) used with one of the eight string operators: the weakened frontend check accepts it and filtering.rs hits unreachable!()"),
    "C10-1": ("C10", "a @filter operand string that is empty or starts with a multi-byte UTF-8 character (`value: [\"\"]`, `[\"\u00e9tag\"]`)"),
    "C10-2": ("C10", "one query with a @fold whose body fails during component construction (undefined tag / ill-typed filter), a LATER @fold, and inside that later fold a filter on a tag defined outside it"),
    "C12-1": ("C12", "one variable used first on a nullable property filter and later in a fold-count filter (needs Int!), with argument null"),
    "C12-2": ("C12", "an argument value with an empty list one nesting level deeper than the variable's type allows (`[]` for Int, `[[]]` for [Int])"),
    "C14-1": ("C14", "one @fold importing at least two different tags defined outside it (imported_tags collected in a HashMap)"),
    "C14-2": ("C14", "a schema in which at least two different types each lack a field required by an interface they implement (error list order follows the hash seed)"),
    "C15-1": ("C15", "resolve_neighbors receiving a context without an active vertex: an edge nested inside an @optional edge that is missing for some row"),
    "C15-2": ("C15", "a trace recorded from an adapter that pulls >= 2 inputs before yielding its first output (read-ahead), replayed"),
    "C16-1": ("C16", "a value containing FieldValue::Enum converted to TransparentValue and back (no JSON text involved)"),
    "C16-2": ("C16", "a type with exactly 30 list levels and a non-null innermost type, rendered and parsed / serialised and deserialised"),
    "C17-1": ("C17", "intersecting two types with at least two list levels whose nullability differs below the first element layer"),
    "C17-2": ("C17", "the subtype relation on two SEPARATELY constructed types whose base name is not String or Int (Float, Boolean, custom)"),
    "C18-1": ("C18", "a Uint64 in the top 2^(N-1) values of the u64 range decoded into a signed narrow field (i8/i16/i32), also inside Option / Vec"),
    "C18-2": ("C18", "a tuple or fixed-size array target fed a list LONGER than its arity"),
    "C19-1": ("C19", "a malformed schema where a type implements an OBJECT type that has a field, the implementer's name sorting before the implemented type's name"),
    "C19-2": ("C19", "an interface chain of depth >= 2 whose middle interface narrows a field, and a leaf type re-declaring the wider form with the wider interface listed first in `implements`"),
    "C20-1": ("C20", "an edge or entry point parameter that is nullable AND has an explicit non-null default, and a query outputting EdgeParameter.default"),
    "C20-2": ("C20", "an interface with an implementer whose name sorts before its own, and a query traversing VertexType.implementer"),
    "C21-1": ("C21", "@recurse needing an implicit coercion, depth >= 2, an explicit `... on T` directly inside the recursed edge, and a non-T vertex at depth >= 1"),
    "C21-2": ("C21", "an edge whose parameters are ALL nullable, used with no arguments at all (defaults and implicit nulls never inserted)"),
    "C23-1": ("C23", "an unobserved fold with a `>=`/`>` count filter and a `!=`/`not_one_of` count filter (variables), real and truncated count on different sides of the excluded value"),
    "C23-2": ("C23", "@recurse on an edge that needs implicit coercion, depth >= 3, a non-coercible vertex reached at least two levels short of the depth"),
    "C24-1": ("C24", "any code that moves or shares a compiled query across threads (EdgeParameters holds an Rc): compile-time only"),
    "C24-2": ("C24", "regex / not_regex with a TAG argument executed concurrently by >= 2 threads that are on different tag values at that moment (check-then-use race on a process-wide cache)"),
    "C25-1": ("C25", "a fault in resolve_neighbors on a vertex-type edge whose parameters all have defaults with at least one null default"),
    "C25-2": ("C25", "a fault in resolve_property for __typename on a type or interface that declares only edges (no properties)"),
    "C26-1": ("C26", "an EDGE (not entry point) parameter that is a list of nullable scalars (`[Float]`, `[String]!`, `[Boolean]`)"),
    "C26-2": ("C26", "two vertex types whose names differ only by leading / trailing underscores (`Account`, `_Account`), both with properties or both with edges"),
    "C27-1": ("C27", "a list nested >= 2 levels with an empty or all-null inner list next to a non-empty one, as argument or as adapter output"),
    "C27-2": ("C27", "an edge with a nullable parameter without non-null default, omitted or null in the query, and an adapter that indexes the parameter mapping"),
    "C01r-1": ("C01", "second round: same early-exit defect as C22-1 (a `>=`/`>` count filter plus a `!=`/`not_one_of` count filter on a fold nothing observes), judged against the declarative semantics"),
    "C01r-2": ("C01", "second round: a nullable edge parameter with an explicit schema default, omitted in the query (same mechanism as C01-1, written independently)"),
    "C01r-3": ("C01", "second round: @recurse that needs an implicit coercion, depth >= 3, a vertex failing the coercion at depth <= d-2 (ensure_suspended no longer idempotent: outputs become null)"),
    "C02r-1": ("C02", "second round: a @tag inside @optional used by a filter on another vertex, optional existing for some adjacent contexts and not others, resolve_property reading ahead >= 2 (stale Rc<Cell<bool>> across the adapter call)"),
    "C02r-2": ("C02", "second round: @recurse(depth >= 2) over an edge needing an implicit coercion, an adapter whose resolve_coercion still holds buffered outputs when its input ends (new end-of-input assertion)"),
    "C02r-3": ("C02", "second round: a @fold under an @optional with mixed existence in adjacent contexts, resolve_neighbors reading ahead >= 2 across an exists/missing boundary"),
    "C04r-1": ("C04", "second round: a fold count tagged INSIDE an @optional that is missing for a row, consumed by a filter on a later vertex of the same component, an adapter resolving dynamic hints (count treated as 0)"),
    "C04r-2": ("C04", "second round: a fold-count filter with an exclusive lower bound and a NEGATIVE variable value (`count > -1`), a vertex whose fold is empty, an adapter pruning by mandatory edges"),
    "C04r-3": ("C04", "second round: two tag-based filters on the same property where the priority winner (`=`) is not written first (`> %low` then `= %wanted`): operator of one filter paired with the tag of the other"),
    "C05r-1": ("C05", "second round: a tag consumed only through a list or string operator (contains, not_one_of, has_prefix, regex, ...) in the same component, tagged property otherwise unused"),
    "C05r-2": ("C05", "second round: a tag defined in a sibling branch written BEFORE a fold that hangs off an earlier vertex, consumed inside the fold / nested fold / its count filter"),
    "C05r-3": ("C05", "second round: a tag on property P of vertex V used as the operand of a filter on a DIFFERENT property Q of the same V, P otherwise unused"),
    "C09r-1": ("C09", "second round: two differently named @tags on the same property, both used inside one @fold (import de-duplicated by name, removed twice at run time)"),
    "C09r-2": ("C09", "second round: @recurse inside a missing @optional (same mechanism as C09-1, written independently)"),
    "C09r-3": ("C09", "second round: an integer ARGUMENT for a Float variable (validation widened) used with an ordering operator on a Float property: unreachable!() in filtering.rs"),
    "C11r-1": ("C11", "second round: one fold using >= 2 different outside tags with interleaved uses (%a, %b, %a): imported_tags = [a, b, a] (Vec::dedup only removes adjacent duplicates)"),
    "C11r-2": ("C11", "second round: the same variable used in a fold-count filter and, earlier in processing order, on a vertex of the parent component or in an earlier sibling fold, with a wider type"),
    "C11r-3": ("C11", "second round: a fold-count @tag used by a filter on an EARLIER vertex of the same component (the fold's own parent vertex): used-before-definition check skipped for count tags"),
    "C13r-1": ("C13", "second round: nested folds exactly one of which is below an @optional (same mechanism as C13-1, written independently)"),
    "C13r-2": ("C13", "second round: @optional -> @fold -> nested @fold with an output, and a vertex where the optional edge does not exist (nested fold's output names missing)"),
    "C13r-3": ("C13", "second round: a @fold with outputs evaluated before a @recurse edge in the same component, data where a vertex has >= 2 neighbours along the recursed edge (folded values dropped for sibling contexts)"),
    "C10r-1": ("C10", "second round: a @fold whose contents fail to compile, a tag defined in an enclosing component, and a later fold (sibling or nested) filtering on that outer tag (same mechanism as C10-2, written independently)"),
    "C10r-2": ("C10", "second round: an edge with @fold AND invalid edge parameters, nested inside another edge's scope (depth >= 2): end_nested_scope skipped"),
    "C10r-3": ("C10", "second round: a fragment spread directly inside an inline fragment (`... on T { ...frag }`), with no named fragment definitions in the document: unreachable!()"),
    "C12r-1": ("C12", "second round: an empty list (top level or nested) where the variable's implied type is not a list at that depth (same mechanism as C12-2, written independently)"),
    "C12r-2": ("C12", "second round: one variable used on a nullable Int property filter in the same or an enclosing scope AND in a fold-count filter, argument null (narrowing skipped when the wider use comes first)"),
    "C12r-3": ("C12", "second round: `contains` / `not_contains` with a variable on a list property whose outer and element nullability differ (`[T!]` accepts null, `[T]!` refuses it)"),
    "C15r-1": ("C15", "second round: a @fold whose count has an upper-bound filter, a vertex with more folded elements than the bound, and an adapter whose neighbour iterators report an exact size_hint (recording takes a shortcut the lazy reader cannot)"),
    "C15r-2": ("C15", "second round: @recurse inside an @optional that is missing for some vertex, and a real serialise / deserialise step of the trace (None markers dropped from suspended_vertices)"),
    "C15r-3": ("C15", "second round: a vertex with zero neighbours along a @fold-ed edge, with something inside the fold that needs an adapter call at set-up time, or a `>= 0` count filter, or the fold inside a missing @optional"),
    "C19r-1": ("C19", "second round: interface chain where the middle interface narrows a field and a leaf widens it again, wider interface listed first (same mechanism as C19-2, written independently)"),
    "C19r-2": ("C19", "second round: >= 2 types implementing `Sub` (which implements `Super`), a well-formed implementer sorting first and one lacking `Super` sorting later (per-interface memoisation)"),
    "C19r-3": ("C19", "second round: a list-typed parameter whose default is a list literal containing an input-object literal (`[1, {min: 2}, 3]`): unconvertible elements silently dropped"),
    "C21r-1": ("C21", "second round: a nullable parameter with a non-null default, omitted in the query, on root / plain / folded / recursed edges (same mechanism as C01-1)"),
    "C21r-2": ("C21", "second round: @recurse depth >= 2 over an edge needing an implicit coercion plus an explicit `... on Sub` on the recursed edge's destination (same mechanism as C21-1, written independently)"),
    "C21r-3": ("C21", "second round: a coercion and a @filter on the same vertex, that vertex being the query root or a @fold root, data containing other subtypes (filters run before the coercion)"),
    "C22r-1": ("C22", "second round: same early-exit defect as C22-1, written independently"),
    "C22r-2": ("C22", "second round: same defect as C22-2 (nested fold's count output not seen by the eligibility check), written independently"),
    "C22r-3": ("C22", "second round: an upper-bound count filter (`<`, `<=`) with a NON-POSITIVE variable and an empty fold in the data (post-filter skipped as already enforced)"),
    "C23r-1": ("C23", "second round: `not_regex` with a TAG operand whose value is not a valid regular expression, and a non-null left-hand string (a filter and its negation no longer partition)"),
    "C23r-2": ("C23", "second round: ensure_suspended not idempotent (same mechanism as C23-2 / C01r-3, written independently)"),
    "C23r-3": ("C23", "second round: an explicit `null` argument for a nullable parameter that has a non-null default (replaced by the default), and an adapter that distinguishes null from the default"),
    "C03r-1": ("C03", "second round: run-based regex caching for `regex` with a %tag operand on the top-level stream (same mechanism as C03-1, written independently)"),
    "C03r-2": ("C03", "second round: an adapter that does not read ahead but calls dynamically_required_property(..).resolve(..) inside resolve_neighbors; the pull count between interpret_ir() returning and the first next() (a peek() in the hint code primes the pipeline)"),
    "C03r-3": ("C03", "second round: @optional { ... @recurse ... } on the top-level stream with the optional edge missing for some starting vertices (same mechanism as C03-2, written independently)"),
    "C14r-1": ("C14", "second round: an invalid schema whose circular `implements` relationship leaves entries with different unresolved sets (ring of >= 3 types, two disjoint cycles): reported cycle picked in hash order"),
    "C14r-2": ("C14", "second round: a multi-step sequence: compile Q against schema S1, drop S1, create a DIFFERENT schema S2 at the same address, compile the same text Q (process-wide cache keyed by the schema's address)"),
    "C14r-3": ("C14", "second round: `regex` / `not_regex` with a %tag operand, a tagged value that is an invalid regex at run time, and an earlier valid pattern on the same thread that happens to match (thread-local last-regex cache survives)"),
    "C16r-1": ("C16", "second round: a type with exactly 30 list levels going through serde deserialisation (guard written `>=` instead of `>`)"),
    "C16r-2": ("C16", "second round: FieldValue::Enum turned into TransparentValue::String on the way IN (same visible effect as C16-1, other direction)"),
    "C16r-3": ("C16", "second round: a root / regular / folded edge with >= 1 parameter all of whose values are null: `parameters` dropped from the serialised IR and read back empty"),
    "C18r-1": ("C18", "second round: Uint64 near u64::MAX into a signed narrow field (same mechanism as C18-1, written independently)"),
    "C18r-2": ("C18", "second round: tuple / fixed-size array target fed a longer list (same effect as C18-2 through two cooperating sites)"),
    "C18r-3": ("C18", "second round: a Float64 of magnitude >= 2^63, or exactly -0.0, decoded into f64 / i64 / u64 / i128 / u128 (whole floats announced to the visitor as i64, saturating cast)"),
    "C20r-1": ("C20", "second round: a mandatory `implementer` traversal with a static `=` / single-candidate `one_of` filter on the implementer's name equal to a source type's own name (fast path drops the self-exclusion)"),
    "C20r-2": ("C20", "second round: a nullable parameter with an explicit non-null default (same mechanism as C20-1, written independently)"),
    "C20r-3": ("C20", "second round: the same field name used as a property on one type and as an edge on another, unrelated type (classification precomputed by field name only)"),
    "C25r-1": ("C25", "second round: a type implementing >= 2 interfaces and a fault on a coercion from a non-last interface (coercion checks collapsed by target type)"),
    "C25r-2": ("C25", "second round: an edge with a nullable parameter whose default is null (same mechanism as C25-1, written independently)"),
    "C25r-3": ("C25", "second round: an edge-only or marker type and a fault on its __typename (same effect as C25-2 through the meta-query)"),
    "C26r-1": ("C26", "second round: one vertex type with both an edge that takes parameters and an edge that takes none (`_parameters` renamed when ANY edge has no parameters)"),
    "C26r-2": ("C26", "second round: an edge on a vertex type with a list parameter whose elements are nullable scalars (same mechanism as C26-1, written independently)"),
    "C26r-3": ("C26", "second round: an interface that declares at least one edge (no Vertex variant and no as_<iface>() for interfaces)"),
    "C06r-1": ("C06", "second round: Range x Range intersection whose receiver already has crossing / touching bounds and includes null, argument without null, probe null (early return skips the null rule); only reachable through the hooks"),
    "C06r-2": ("C06", "second round: a range with both bounds Excluded at the same value and null included, probe null (`> x` and `< x` with the same operand): normalises to Impossible instead of {null}"),
    "C06r-3": ("C06", "second round: excluding x from the un-normalised point range [x, x] that includes null (also with mixed Int64 / Uint64 end points), probe null"),
    "C07r-1": ("C07", "second round: one_of / contains / not_one_of / not_contains between a negative Int64 and a Uint64 above i64::MAX with the same bit pattern (compare_i64_to_u64 wraps)"),
    "C07r-2": ("C07", "second round: within ONE execution, `regex` / `not_regex` with a %tag: a valid pattern, then a context whose pattern is invalid and whose text matches the earlier pattern (stale cached regex); every pair alone is still right"),
    "C07r-3": ("C07", "second round: `<=` / `>=` with BOTH operands null (only possible with a %tag operand): defined as strict-or-equals, and equals is null-safe"),
    "C08r-1": ("C08", "second round: ordering of -0.0 vs 0.0 via total_cmp (same mechanism as C08-2, written independently)"),
    "C08r-2": ("C08", "second round: two distinct list allocations with an Int64 / Uint64 of the same number at the same position: list equality recurses structurally while ordering says Equal"),
    "C08r-3": ("C08", "second round: two DISTINCT Uint64 values both >= 2^63 compare equal (as_i64() gives None == None) while ordering says Less"),
    "C17r-1": ("C17", "second round: intersect on two separately constructed types with a base other than String / Int (base names compared by pointer)"),
    "C17r-2": ("C17", "second round: subtype check by bit mask: a deeper list type whose mask is a bit-superset of the parent's is reported as a subtype (`[Int]` of `Int`); the relation stays a partial order, but contradicts intersect and value monotonicity"),
    "C17r-3": ("C17", "second round: equal_ignoring_nullability on two lists of different depth with the receiver the shallower one (asymmetric)"),
    "C24r-1": ("C24", "second round: process-wide last-tagged-regex cache with a check-then-use race (same mechanism as C24-2, written independently)"),
    "C24r-2": ("C24", "second round: EdgeParameters Arc -> Rc (same mechanism as C24-1, written independently)"),
    "C24r-3": ("C24", "second round: a shared schema asked about MORE THAN 16 distinct types by concurrent callers of Schema::subtypes() (bounded memo cleared under readers: 'no entry found for key')"),
    "C27r-1": ("C27", "second round: nested list with an empty / all-null inner list next to a non-empty one (same mechanism as C27-1, written independently)"),
    "C27r-2": ("C27", "second round: one query that uses the same parameterised edge on the same type twice with different parameter values (converted parameters cached by (type, edge))"),
    "C27r-3": ("C27", "second round: a Python string ARGUMENT containing a lone surrogate (os.fsdecode of undecodable bytes): silently rewritten with U+FFFD instead of rejected"),
    "C01t-1": ("C01", "third round: same defect as C22-2 (nested fold's count output not seen by the early-exit eligibility check), judged against the declarative semantics"),
    "C01t-2": ("C01", "third round: nullable edge parameter with a declared default receives null (same mechanism as C01-1, written independently)"),
    "C01t-3": ("C01", "third round: a fold below a missing @optional inside a non-empty outer fold outputs [] instead of null (same mechanism as C01-2, written independently)"),
    "C02t-1": ("C02", "third round: stale 'tag source exists' flag across resolve_property (same mechanism as C02r-1, written independently)"),
    "C02t-2": ("C02", "third round: a fold-count filter with a static maximum, a filter inside the fold that removes elements, a row with #neighbours > max >= #surviving, and adapters that differ in whether their iterators propagate size_hint (upper bound misread as lower bound)"),
    "C02t-3": ("C02", "third round: a @fold with outputs whose count filter takes a %tag (an adapter call between the two fold stages), adjacent rows alternating empty / non-empty folds, read-ahead >= 3 at that call"),
    "C09t-1": ("C09", "third round: fold-count filter `>` with the exact argument u64::MAX in an overflow-checked build (saturating_add replaced by +)"),
    "C09t-2": ("C09", "third round: two different outer tags used alternately (%t, %s, %t) inside one fold: imported_tags = [t, s, t], second removal panics at run time"),
    "C09t-3": ("C09", "third round: a tag on a list-of-String property used as the operand of a string operator (right-operand check lost is_list()): unreachable!() at run time"),
    "C10t-1": ("C10", "third round: failed fold leaves the tag import stack out of step (same mechanism as C10-2 / C10r-1, written independently)"),
    "C10t-2": ("C10", "third round: early return on bad folded-edge parameters skips closing the output scope (same mechanism as C10r-2, written independently)"),
    "C10t-3": ("C10", "third round: @filter operand whose first character is multi-byte in UTF-8 (empty operand handled; same family as C10-1)"),
    "C11t-1": ("C11", "third round: folds nested >= 2 deep with a filter-less intermediate fold and a variable used only in the inner fold's filter or count filter (not recorded / not narrowed)"),
    "C11t-2": ("C11", "third round: the same tag used in two different folds: only the first fold imports it (same mechanism as C11-1, written independently)"),
    "C11t-3": ("C11", "third round: one variable used in two filters whose inferred types are lists nested >= 2 deep differing in nullability at depth >= 2, looser use first: Type::intersect flat below the first list level; frontend::parse then PANICS (so no IR exists for C11 to inspect: detected by C17's lattice laws and by C10)"),
    "C21t-1": ("C21", "third round: implicit recursion coercion names the wrong source type (same mechanism as C21-1 / C21r-2, written independently)"),
    "C21t-2": ("C21", "third round: a tag on vertex P used inside a @fold that expands from P, with a sibling non-folded edge written before the fold that leads to a vertex of another type (activate_vertex skipped for the fold's own parent)"),
    "C21t-3": ("C21", "third round: implicit coercion target a strict ancestor of the source type, recursion depth >= 2, a depth-1 vertex of the ancestor type but not the source type (resolve_neighbors names the source type)"),
    "C22-1": ("C22", "a lower-bound count filter (>= / >) together with a != / not_one_of filter on the same fold count, both with variables, nothing observing the fold, fold larger than the bound"),
    "C22-2": ("C22", "an outer fold with only lower-bound count filters whose only observed content is a nested fold's count @output, outer fold larger than the bound"),
    "C15u-1": ("C15", "fourth round (state): a query with at least one $variable recorded a SECOND time through the tracer that AdapterTap::finish() left behind; the second trace has no arguments and cannot be replayed"),
    "C07u-2": ("C07", "fourth round: one_of / not_one_of with a list-typed left operand (list of lists on the right), or contains / not_contains over a list of lists, where a member equals the probe numerically but holds an integer in the other representation (Int64 vs Uint64)"),
    "C19u-2": ("C19", "fourth round (position): an edge with >= 2 parameters where a parameter WITHOUT a default precedes one whose default does not fit its type (`e(limit: Int, name: String = 123)`)"),
    "C20u-1": ("C20", "fourth round (state): the `Schema.entrypoint` edge resolved for two or more contexts in one query (`Schema { vertex_type {..} entrypoint {..} }` with >= 2 vertex types): only the first context sees the entry points"),
    "C16u-1": ("C16", "fourth round (sequence, two sites): a Type is rendered or serialized, a type of other nullability is derived from it with with_nullability (which clones the cached text), and the derived type is rendered or serialized (IRQuery serialized, IndexedQuery rebuilt from it, then serialized)"),
}


def main():
    root = "/verif/seeded"
    rows = []
    for sid in sorted(os.listdir(root)):
        d = f"{root}/{sid}"
        if not os.path.isdir(d) or not os.path.exists(f"{d}/verify.json"):
            continue
        prop, needs = NEEDS.get(sid, (sid.split("-")[0], "see notes.md"))
        verify = json.load(open(f"{d}/verify.json"))
        detections = []
        if os.path.exists(f"{d}/detections.tsv"):
            for line in open(f"{d}/detections.tsv"):
                parts = line.rstrip("\n").split("\t")
                if len(parts) >= 4:
                    detections.append({"check": parts[0], "tier": parts[1], "seed": parts[2], "exit_code": int(parts[3]),
                                       "detected": parts[3] == "1", "harness_commit": parts[4] if len(parts) > 4 else ""})
        meta = {
            "id": sid,
            "breaks_property": prop,
            "origin": "written by a fresh sub-agent that was given only the property text and a scratch worktree of /repo",
            "needs_to_manifest": needs,
            "confirmed": {
                "where": "scratch worktree /tmp/vw (removed afterwards); never applied to /repo except transiently by scripts/seeded_run.sh",
                "repository_suite_with_patch": verify.get("suite_with_patch"),
                "suite_cmd": verify.get("suite_cmd"),
                "demo_exit_code_with_patch": verify.get("demo_rc_with_patch"),
                "demo_exit_code_without_patch": verify.get("demo_rc_without_patch"),
                "demo_cmd": "bash demo/run.sh (from the worktree root)",
            },
            "framework_runs": detections,
            "detected_by": sorted({x["check"] for x in detections if x["detected"]}),
        }
        json.dump(meta, open(f"{d}/meta.json", "w"), indent=1)
        print(sid, "detected_by", meta["detected_by"])
        rows.append((sid, prop, needs, meta["detected_by"], detections))
    lines = ["# Seeded defects (written by independent sub-agents, confirmed in a scratch worktree)", "",
             "Generated by `scripts/seeded_meta.py`. Each directory holds `patch.diff`, `demo/`, `notes.md`, `verify.json`, `detections.tsv`, `meta.json`.",
             "`detected by` lists the registered checks whose quick tier (VERIF_SEED=1) reported a violation with the patch applied to /repo.", "",
             "| id | property | needs, in order to manifest | detected by (quick tier) | runs recorded |", "|---|---|---|---|---|"]
    for sid, prop, needs, det, detections in rows:
        lines.append(f"| {sid} | {prop} | {needs} | {', '.join(det) if det else '**not detected**'} | {len(detections)} |")
    open(f"{root}/README.md", "w").write("\n".join(lines) + "\n")
    design = open("/verif/DESIGN.md").read()
    b, e = "<!-- SEEDED-TABLE-BEGIN -->", "<!-- SEEDED-TABLE-END -->"
    if b in design and e in design:
        table = "\n".join(l for l in lines if l.startswith("|"))
        design = design[: design.index(b) + len(b)] + "\n" + table + "\n" + design[design.index(e):]
        open("/verif/DESIGN.md", "w").write(design)


if __name__ == "__main__":
    main()
