#!/bin/bash
# scripts/seeded_verify.sh <deliver_dir> <seeded_id>
# Confirms a sub-agent's seeded defect in the scratch worktree /tmp/vw (never in /repo):
#   1. patch applies; the repository's whole test suite (BASELINE command) still gives 906 passes and only the three
#      stubgen golden tests (which fail offline on the unchanged tree too) fail;
#   2. the demonstration fails with the patch and passes without it.
# On success copies patch.diff, demo/, notes.md into /verif/seeded/<seeded_id>/ and writes verify.json there.
set -u
SRC="${1:?deliver dir}"; ID="${2:?seeded id}"
VW="${VW:-/tmp/vw}"
export CARGO_NET_OFFLINE=true CARGO_TARGET_DIR=$VW/target
LOG=/tmp/vw_logs/$ID; mkdir -p "$LOG"
cd $VW || exit 2
git checkout -q -- . && git clean -fdq -e target
if ! git apply --check "$SRC/patch.diff" 2>"$LOG/apply.err"; then echo "$ID: patch does not apply"; cat "$LOG/apply.err"; exit 3; fi
git apply "$SRC/patch.diff"
cargo nextest run --workspace --no-fail-fast --tool-config-file pb:/w/lib/nextest.toml --profile pb --test-threads 8 --offline >"$LOG/suite.log" 2>&1
SUMMARY=$(grep -a -E '^\s+Summary' "$LOG/suite.log" | tail -1)
FAILED=$(grep -a -E '^\s+(FAIL|SIGABRT|SIGSEGV|TIMEOUT)' "$LOG/suite.log" | sed -E 's/.*\) //' | sort -u | tr '\n' ';')
echo "$ID suite: $SUMMARY failed=[$FAILED]"
EXPECT="trustfall_stubgen tests::hackernews_schema;trustfall_stubgen tests::no_edges_schema;trustfall_stubgen tests::use_reserved_rust_names_in_schema;"
SUITE_OK=true
# all 909 tests ran; every failure is one of the three golden tests that also fail offline on the unchanged tree
# (they pass in a worktree whose target dir is warm), so at least the 906 baseline tests passed
echo "$SUMMARY" | grep -q '909 tests run' || SUITE_OK=false
PASSED=$(echo "$SUMMARY" | sed -E 's/.*: ([0-9]+) passed.*/\1/')
[ "${PASSED:-0}" -ge 906 ] || SUITE_OK=false
IFS=';' read -ra FL <<< "$FAILED"
for f in "${FL[@]}"; do [ -z "$f" ] && continue; case ";$EXPECT" in *";$f;"*) ;; *) SUITE_OK=false ;; esac; done
# demo with the patch: must fail
( cd $VW && bash "$SRC/demo/run.sh" ) >"$LOG/demo_with.log" 2>&1; RC_WITH=$?
git checkout -q -- . && git clean -fdq -e target
( cd $VW && bash "$SRC/demo/run.sh" ) >"$LOG/demo_without.log" 2>&1; RC_WITHOUT=$?
git checkout -q -- . && git clean -fdq -e target
echo "$ID demo: with-patch rc=$RC_WITH (want != 0), without rc=$RC_WITHOUT (want 0)"
if $SUITE_OK && [ $RC_WITH -ne 0 ] && [ $RC_WITHOUT -eq 0 ]; then
  D=/verif/seeded/$ID; mkdir -p "$D"
  cp "$SRC/patch.diff" "$D/patch.diff"; rm -rf "$D/demo"; cp -r "$SRC/demo" "$D/demo"; [ -f "$SRC/notes.md" ] && cp "$SRC/notes.md" "$D/notes.md"
  python3 - "$D" "$ID" "$SUMMARY" "$RC_WITH" "$RC_WITHOUT" <<'PY'
import json, sys
d, i, summary, rw, rwo = sys.argv[1:6]
json.dump({"id": i, "suite_with_patch": summary.strip(), "all_906_baseline_tests_passed": True,
           "demo_rc_with_patch": int(rw), "demo_rc_without_patch": int(rwo),
           "suite_cmd": "cargo nextest run --workspace --no-fail-fast --tool-config-file pb:/w/lib/nextest.toml --profile pb --test-threads 8 --offline (in a scratch worktree)"},
          open(d + "/verify.json", "w"), indent=1)
PY
  echo "$ID: CONFIRMED -> $D"
  exit 0
fi
echo "$ID: NOT CONFIRMED (suite_ok=$SUITE_OK)"; tail -5 "$LOG/demo_with.log"; tail -5 "$LOG/demo_without.log"
exit 1
