#!/bin/bash
# C26: generated adapter stubs compile. usage: scripts/check_C26.sh <quick|thorough> [--replay <file>]
# Builds the driver (/verif/stub, depends on /repo/trustfall_stubgen by path) and runs it; the driver generates the
# stubs with the current tree's generator and compiles them against /repo/trustfall.
set -u
cd "$(dirname "$0")/.."
TIER="${1:-quick}"; shift || true
export CARGO_NET_OFFLINE=true
[ -f stub/Cargo.lock ] || cp /repo/Cargo.lock stub/Cargo.lock
if ! ( cd stub && cargo build --release --target-dir /verif/target-a >/verif/target-a.c26.build.log 2>&1 ); then
  echo "INCONCLUSIVE: the C26 driver or /repo does not build; see /verif/target-a.c26.build.log" >&2
  tail -30 /verif/target-a.c26.build.log >&2
  exit 2
fi
exec /verif/target-a/release/c26 "$TIER" "$@"
