#!/usr/bin/env python3
"""Regenerates /verif/MANIFEST.json from the table below (kept in one place so it stays consistent)."""
import json, subprocess

CHECKS = {
 # id: (technique, level text, level note, design ref)
 "C01": ("differential testing against an independent reference interpreter over generated schemas, datasets and queries (proptest-driven choice streams)",
         "Bounded random search: engine rows vs an eager reference evaluator written from the documented semantics, compared as multisets over generated worlds. Finds semantic divergences on small graphs/queries; says nothing about inputs beyond the generator bounds.",
         "Trusts the harness generators, the reference interpreter (documented semantics plus three stated readings), proptest and the honest GraphAdapter.", "3/C01"),
 "C02": ("differential testing engine-vs-engine under generated read-ahead schedules (harness-owned schedule)",
         "Bounded random search over (query, order-preserving batching schedule) pairs; row sequence must equal the plain run and nothing may panic. The harness owns the schedule, so this is the schedules the wrapper can express (prefetch/buffer sizes 1-4 or all, eager constructor-time prefetch).",
         "Trusts that the wrapper only produces order-preserving schedules; oracle is the same engine without read-ahead.", "3/C02"),
 "C03": ("invariant over pull counters on generated worlds, expected counts from the reference interpreter",
         "Bounded random search: counts starting-vertex pulls after every row and after early drops against the per-start row counts predicted by the reference.", "Trusts the reference's per-start grouping and that GraphAdapter is lazy and one-in-one-out.", "3/C03"),
 "C05": ("invariant over recorded adapter call histories on generated worlds",
         "Bounded random search; every resolve_property call must be covered by required_properties() at call time.", "Trusts the recording wrapper.", "3/C05"),
 "C09": ("generated worlds with stress arguments, plus loosely typed queries that the frontend itself accepts or rejects, no-panic oracle (catch_unwind with location attribution); thorough tier adds a coverage-guided libFuzzer campaign over the same choice streams",
         "Bounded random search for panics during execution of accepted queries, run to exhaustion and with early drops; the loose search quantifies over whatever the frontend accepts (operators and tag operands chosen without regard to types, arguments from the engine's recorded variable types).", "Trusts that GraphAdapter honours the adapter contract; listed findings are tolerated only on their exact signatures.", "3/C09"),
 "C06": ("exhaustive enumeration of a small candidate universe plus random candidates, against a reference membership model (guarded re-exports)",
         "Exhaustive for all candidates over null + 5 ordered values (integer universe with mixed encodings, string universe) x all probes; random search over boundary integers and strings beyond that.", "Trusts the membership model written on the public CandidateValue enum; needs the __verif hooks.", "3/C06"),
 "C07": ("exhaustive integer boundary grid plus random operand pairs against reference operator definitions, direct (hooks) and end-to-end through the engine",
         "Exhaustive over all boundary-integer pairs in both encodings for the six comparison operators; random search for the remaining operators and operand kinds, and for the engine's dispatch tables via one-vertex worlds.", "Trusts the reference operators (values.rs) incl. the restricted-grammar regex matcher; needs the __verif hooks.", "3/C07"),
 "C08": ("algebraic laws on generated triples of field values, exhaustive on the integer boundary grid",
         "Exhaustive over all triples of boundary integers in both encodings; random search over all value kinds and nested lists.", "Public API only.", "3/C08"),
 "C10": ("grammar-based, mutation-based (token level and AST-level point mutations of valid generated queries) and raw-byte query text generation with a no-panic oracle; thorough tier adds coverage-guided libFuzzer campaigns (byte-level text with a token dictionary, seeded with the repository's queries; and over the structured choice streams)",
         "Bounded random search over loosely generated documents, valid generated queries with one to three point mutations, token-level mutations of the repository's own queries, and raw strings with multi-byte characters; finds reachable panics in the frontend's own code, not in the third-party parser.", "Trusts catch_unwind attribution; nesting depth is bounded.", "3/C10"),
 "C11": ("invariant checker over the public IR fields on every accepted generated or mutated query",
         "Bounded random search; the checker is written from the property statement, independent of ir/indexed.rs.", "Trusts the checker's reading of the statement.", "3/C11"),
 "C12": ("generated argument-map edits against a harness type model and the documented variable-type inference",
         "Bounded random search over (query, edited argument map) pairs; verdict and the named variables must match.", "Trusts the harness type model and inference rule (values.rs, query_ast.rs).", "3/C12"),
 "C13": ("invariant over result rows against declared output types and an independent derivation of those types",
         "Bounded random search on generated worlds with schema-conforming data.", "Trusts the harness type model and the documented nullability/list rule.", "3/C13"),
 "C14": ("repeated evaluation with fresh hash seeds in-process and digest comparison across separately spawned processes",
         "Bounded random search over valid queries, hostile query text and mutated schemas; each case digested 8x in-process and in 3-5 processes.", "Trusts that digests cover IR/error text, rows and adapter call traces; process-level hash seeds vary per process.", "3/C14"),
 "C15": ("round trip through the tracing adapter, RON serialisation and trace replay on generated worlds, over one-in-one-out adapters and over adapters that read ahead by generated order-preserving schedules",
         "Bounded random search; replay uses only the trace (TraceReaderAdapter). Two listed findings about replaying traces of adapters that pull at construction time or poll an exhausted input again are excluded by construction from the main search and included in a second one.", "Trusts the repo's assert_interpreted_results as the replay driver.", "3/C15"),
 "C16": ("round-trip oracles on generated values, types and compiled queries (RON, JSON, untagged form with and without JSON text, Display/parse); thorough tier adds coverage-guided libFuzzer campaigns over JSON / RON text that deserialises as a value or type",
         "Bounded random search with bit-exact float comparison; types up to the documented maximum list depth.", "Public API only; ron and serde_json as used by the repo.", "3/C16"),
 "C17": ("exhaustive enumeration of 90 types (pairs, triples, values) against a pointwise lattice model, plus random deep types (guarded re-exports)",
         "Exhaustive for 3 base names x list depth 0-3 x all nullability patterns; random up to depth 30.", "Trusts the Ty model; needs the __verif hooks.", "3/C17"),
 "C18": ("generated (target type, value) pairs against a representability model",
         "Bounded random search aimed at integer boundaries, overflow by one, tuple lengths and nulls for 40 target types.", "Trusts the model of representability; cross-kind conversions are not asserted.", "3/C18"),
 "C19": ("labelled schema mutations against an independent reference validator, with a no-panic oracle",
         "Bounded random search over valid-by-construction schemas with 0-3 of 44 mutation kinds; verdict must equal the reference validator's, which is cross-checked against the labels.", "Trusts the reference validator's reading of the documented rules.", "3/C19"),
 "C04": ("differential testing of an honest adapter against a hint-pruning adapter on generated worlds, membership decided by a harness model",
         "Bounded random search; the pruning adapter uses static and dynamic candidates and mandatory edges (one level deep) exactly where the hint API documents them as binding; any change in the row sequence is a violation, attributed to the hint source by re-runs.", "Trusts the candidate membership model and that pruning uses only binding hints.", "3/C04"),
 "C20": ("fixed full-coverage introspection queries on generated schemas compared with facts computed from the schema AST",
         "Bounded random search over valid schemas with docs, hierarchies and parameter defaults; results compared as sets; the introspection adapter is also run through check_adapter_invariants.", "Trusts the AST renderer and fact extraction.", "3/C20"),
 "C22": ("reference interpreter plus metamorphic observer injection and observer removal on fold-biased worlds; thorough tier adds coverage-guided libFuzzer campaigns over the same choice streams",
         "Bounded random search: engine vs reference; engine vs engine with observers (count output, inner output, count tag consumed by an always-true sibling-fold filter) added to a filtered fold; and engine vs engine with every output removed from a filtered fold (which makes it eligible for early termination). One to three filters per fold count.", "Trusts the reference interpreter and that the injected observers are semantically neutral.", "3/C22"),
 "C23": ("metamorphic relations engine-vs-engine on generated worlds",
         "Bounded random search over eight transformations with known effect (sub/super-multiset, equality, partition, renaming).", "Trusts that each transformation is applied only where its documented precondition holds.", "3/C23"),
 "C25": ("single-fault injection into a contract-abiding adapter over generated schemas",
         "Bounded random search over (schema, fault coordinate, fault kind); the checker must fail iff a fault is injected at a coordinate it documents covering.", "Trusts the enumeration of documented-covered coordinates.", "3/C25"),
 "C24": ("compile-time Send + Sync obligations in a separate crate, plus generated batches run concurrently on 2-16 threads in fresh processes and compared with the sequential results",
         "The static part decides the bounds for the listed types on every run (a lost bound fails to compile). The dynamic part is bounded random search over batches of generated (schema, dataset, query, args) jobs; the operating system picks the interleavings, so it finds gross races and order-dependent shared state, not a rare interleaving.",
         "Trusts rustc's auto-trait checking and that comparing IR text and row text detects a divergence; the first batch of every worker process starts its threads before the engine was used at all.", "3/C24"),
 "C26": ("generated schemas with hostile naming plus a complete single-name grid; the generated stubs are compiled (tests included) as modules of one crate against /repo/trustfall",
         "The grid enumerates every name of the hostile pools (all strict and reserved Rust keywords, case / underscore look-alikes, names of generated and prelude items) at each of 7 positions completely on every run; beyond it, bounded random search over generated schemas with several hostile names at once. The compile is the oracle, so cases are few (hundreds quick, thousands thorough).",
         "Trusts rustc / cargo check --tests (quick) or cargo test --no-run (thorough), edition 2021 as in the repository's own stubgen tests, and the attribution of diagnostics to case directories.", "3/C26"),
 "C27": ("differential testing of the Python bindings against the Rust engine over generated worlds (mirror adapter answering from recorded tables) plus Hypothesis-generated value round trips and non-convertible arguments",
         "Bounded random search: 3 000 (quick) generated (schema, dataset, query, arguments) cases whose rows must equal the Rust engine's type- and bit-exactly, and 2 500 Hypothesis examples of values crossing the boundary in both directions. Says nothing about adapters that misbehave or about values outside the generators.",
         "Trusts the mirror adapter (tables recorded from the honest Rust adapter), CPython's json/float parsing of shortest round-trip floats, Hypothesis, and that pytrustfall is built from the current tree.", "3/C27"),
 "C21": ("invariant over recorded adapter call histories checked against the schema AST and dataset",
         "Bounded random search; every adapter call must name defined types/fields, legal coercions, exactly the declared parameters with predicted values, and instances of the named type.", "Trusts the schema AST model and the recording wrapper.", "3/C21"),
}

FUZZED = {"C01", "C02", "C03", "C04", "C05", "C09", "C10", "C11", "C12", "C13", "C15", "C16", "C19", "C21", "C22", "C23"}


def main():
    commits = subprocess.run(["git","-C","/repo","log","--format=%H %s"],capture_output=True,text=True).stdout.strip().splitlines()
    hook_commits = [l.split()[0] for l in commits if "__verif feature" in l]
    checks = []
    for pid,(tech,text,note,ref) in sorted(CHECKS.items()):
        if pid in FUZZED and "libFuzzer" not in tech:
            tech += "; thorough tier adds a coverage-guided libFuzzer campaign over the same choice streams (oracle inside the target)"
        checks.append({
            "property_id": pid,
            "quick_cmd": f"./check {pid} quick",
            "thorough_cmd": f"./check {pid} thorough",
            "evidence_file": f"/verif/evidence/{pid}.json",
            "replay_cmd_template": f"./check {pid} quick --replay {{path}}",
            "engine": {"C26": "c26", "C27": "c27"}.get(pid, "tfv"),
            "level_claimed": {"category": "exploration", "text": text, "design_ref": f"DESIGN.md section {ref}"},
            "level_note": note,
            "technique": tech,
        })
    props = [json.loads(l)["id"] for l in open("/verif/properties.jsonl")]
    na = [{"property_id": p, "reason": "no check is registered for this property"} for p in props if p not in CHECKS]
    m = {
        "version": 1,
        "setup_cmd": "./setup.sh",
        "hooks": {
            "guard": "cargo feature `__verif` on trustfall_core",
            "enable": "harness built with `--features hooks` (which enables trustfall_core/__verif) into /verif/target-b; all other checks build without it into /verif/target-a",
            "baseline_off_cmd": "cd /repo && cargo nextest run --workspace --no-fail-fast --tool-config-file pb:/w/lib/nextest.toml --profile pb --test-threads 8 --offline",
            "source_commits": hook_commits,
            "add_only": True,
        },
        "engines": [
            {"name": "tfv", "path": "/verif/harness", "serves_properties": sorted(k for k in CHECKS if k not in ("C26", "C27")),
             "kind_free_text": "Rust harness: proptest-driven choice streams decoded into schemas/datasets/queries/schedules, reference models, adapter wrappers; one subcommand per property (C24 also compiles /verif/c24, the Send + Sync obligations)"},
            {"name": "fz", "path": "/verif/fuzz", "serves_properties": sorted(FUZZED),
             "kind_free_text": "cargo-fuzz crate with one libFuzzer binary on top of the tfv library (TFV_FUZZ_TARGET selects the oracle); driven by scripts/fuzz_campaign.py from the thorough tiers only (nightly toolchain; not needed by setup or by any quick check)"},
            {"name": "c27", "path": "/verif/py", "serves_properties": ["C27"],
             "kind_free_text": "Python runner (Hypothesis, tooling venv) over pytrustfall built from /repo; cases come from `tfcheck C27-EMIT` of the tfv harness; driven by scripts/check_C27.sh"},
            {"name": "c26", "path": "/verif/stub", "serves_properties": ["C26"],
             "kind_free_text": "Rust driver on top of the tfv library: generates schemas, calls trustfall_stubgen, writes a batch crate under /verif/scratch and compiles it with cargo"},
        ],
        "checks": checks,
        "not_applicable": na,
        "notes": "Every check: exit 0 = held on everything explored; exit 1 + VIOLATION line = unlisted violation; exit 2 = inconclusive (build failure / harness self-check). Listed findings live in known_findings.json and print KNOWN-FINDING lines.",
    }
    json.dump(m, open("/verif/MANIFEST.json","w"), indent=1)
    print("wrote MANIFEST.json with", len(checks), "checks;", len(na), "not claimed")

main()
