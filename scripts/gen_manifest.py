#!/usr/bin/env python3
"""Regenerates /verif/MANIFEST.json from the table below (kept in one place so it stays consistent)."""
import json, subprocess

CHECKS = {
 # id: (technique, level text, level note, design ref)
 "C01": ("differential testing against an independent reference interpreter over generated schemas, datasets and queries (proptest-driven choice streams)",
         "Bounded random search: engine rows vs an eager reference evaluator written from the documented semantics, compared as multisets over generated worlds. Finds semantic divergences on small graphs/queries; says nothing about inputs beyond the generator bounds.",
         "Trusts the harness generators, the reference interpreter (documented semantics plus three stated readings), proptest and the honest GraphAdapter.", "3/C01"),
 "C02": ("differential testing engine-vs-engine under generated read-ahead schedules (harness-owned schedule)",
         "Bounded random search over (query, order-preserving batching schedule) pairs; row sequence must equal the plain run and nothing may panic. The harness owns the schedule, so this is the schedules the wrapper can express (prefetch/buffer sizes 1-4 or all, eager constructor-time prefetch).",
         "Trusts that the wrapper only produces order-preserving schedules; oracle is the same engine without read-ahead.", "3/C02"),
 "C03": ("invariant over pull counters on generated worlds, expected counts from the reference interpreter",
         "Bounded random search: counts starting-vertex pulls after every row and after early drops against the per-start row counts predicted by the reference.", "Trusts the reference's per-start grouping and that GraphAdapter is lazy and one-in-one-out.", "3/C03"),
 "C05": ("invariant over recorded adapter call histories on generated worlds",
         "Bounded random search; every resolve_property call must be covered by required_properties() at call time.", "Trusts the recording wrapper.", "3/C05"),
 "C09": ("generated worlds with stress arguments, no-panic oracle (catch_unwind with location attribution)",
         "Bounded random search for panics during execution of accepted queries, run to exhaustion and with early drops.", "Trusts that GraphAdapter honours the adapter contract; listed findings are tolerated only on their exact signatures.", "3/C09"),
 "C21": ("invariant over recorded adapter call histories checked against the schema AST and dataset",
         "Bounded random search; every adapter call must name defined types/fields, legal coercions, exactly the declared parameters with predicted values, and instances of the named type.", "Trusts the schema AST model and the recording wrapper.", "3/C21"),
}

def main():
    commits = subprocess.run(["git","-C","/repo","log","--format=%H %s"],capture_output=True,text=True).stdout.strip().splitlines()
    hook_commits = [l.split()[0] for l in commits if "__verif feature" in l]
    checks = []
    for pid,(tech,text,note,ref) in sorted(CHECKS.items()):
        checks.append({
            "property_id": pid,
            "quick_cmd": f"./check {pid} quick",
            "thorough_cmd": f"./check {pid} thorough",
            "evidence_file": f"/verif/evidence/{pid}.json",
            "replay_cmd_template": f"./check {pid} quick --replay {{path}}",
            "engine": "tfv",
            "level_claimed": {"category": "exploration", "text": text, "design_ref": f"DESIGN.md section {ref}"},
            "level_note": note,
            "technique": tech,
        })
    props = [json.loads(l)["id"] for l in open("/verif/properties.jsonl")]
    na = [{"property_id": p, "reason": "check not built yet in this session; planned in DESIGN.md section 3 (no claim is made until the check exists)"} for p in props if p not in CHECKS]
    m = {
        "version": 1,
        "setup_cmd": "./setup.sh",
        "hooks": {
            "guard": "cargo feature `__verif` on trustfall_core",
            "enable": "harness built with `--features hooks` (which enables trustfall_core/__verif) into /verif/target-b; all other checks build without it into /verif/target-a",
            "baseline_off_cmd": "cd /repo && cargo nextest run --workspace --no-fail-fast --tool-config-file pb:/w/lib/nextest.toml --profile pb --test-threads 8 --offline",
            "source_commits": hook_commits,
            "add_only": True,
        },
        "engines": [
            {"name": "tfv", "path": "/verif/harness", "serves_properties": sorted(CHECKS.keys()),
             "kind_free_text": "Rust harness: proptest-driven choice streams decoded into schemas/datasets/queries/schedules, reference models, adapter wrappers; one subcommand per property"},
        ],
        "checks": checks,
        "not_applicable": na,
        "notes": "Every check: exit 0 = held on everything explored; exit 1 + VIOLATION line = unlisted violation; exit 2 = inconclusive (build failure / harness self-check). Listed findings live in known_findings.json and print KNOWN-FINDING lines.",
    }
    json.dump(m, open("/verif/MANIFEST.json","w"), indent=1)
    print("wrote MANIFEST.json with", len(checks), "checks;", len(na), "not claimed")

main()
